#!/bin/bash
# tools_run_all.sh quick|thorough [ids...]: run the registered checks one after another on the current tree, print one line each
TIER=${1:-quick}; shift
IDS=${@:-C01 C02 C03 C04 C05 C06 C07 C08 C09 C10 C11 C12 C13 C14 C15 C17 C18 C19}
cd "$(dirname "$0")"
for id in $IDS; do
  s=$(date +%s)
  bin/check $id $TIER > /tmp/runall_$id.log 2>&1; rc=$?
  echo "$id exit=$rc $(( $(date +%s) - s ))s $(grep -E '^SUMMARY' /tmp/runall_$id.log | tail -1) $(grep -cE '^INCONCLUSIVE' /tmp/runall_$id.log) inconclusive $(grep -cE '^HARNESS' /tmp/runall_$id.log) harness-errors"
done
