"""tools_archive_seed.py <ID> <name> <caught_by> <needs...>: copy a confirmed seeded change from /tmp/seed/<ID> into /verif/seeded/<name>/"""
import json, os, shutil, sys, re
pid, name, caught = sys.argv[1], sys.argv[2], sys.argv[3]
needs = " ".join(sys.argv[4:])
src = "/tmp/seed/" + pid
dst = "/verif/seeded/" + name
os.makedirs(dst, exist_ok=True)
for f in ("patch.diff", "demo.py", "notes.md"):
    shutil.copy(os.path.join(src, f), os.path.join(dst, f))
def rd(f):
    try: return open(os.path.join(src, f)).read()
    except Exception: return ""
logs = {f: rd(f)[-600:] for f in os.listdir(src) if f.startswith("check_") or f.startswith("demo_w")}
verdicts = {}
for f, t in logs.items():
    if f.startswith("check_"):
        verdicts[f[6:-4]] = {"violation_reported": "VIOLATION property=" in rd(f), "summary": [l for l in rd(f).splitlines() if l.startswith("SUMMARY")][-1:] }
meta = {
    "property": pid.rstrip("bcd"),
    "origin": "written by an independent sub-agent that saw only the property text and a scratch worktree of /repo (nothing from /verif)",
    "needs_to_manifest": needs,
    "confirmed_by_me": {
        "existing_test_suite_with_change": "passes (57 stable tests; the known-flaky tests.test_encoding::test_message_encoding excepted)",
        "demo_with_change": (rd("demo_with.log").strip().splitlines() or [""])[-1][:300],
        "demo_without_change": (rd("demo_without.log").strip().splitlines() or [""])[-1][:300],
        "how": "tools_verify_seed.sh %s: pytest in the worktree with PYTHONPATH=<worktree>/src; demo.py with the patch applied and reverted; git -C /repo apply patch.diff; bin/check <id> quick; git -C /repo checkout -- ." % pid,
    },
    "checks_run": verdicts,
    "caught_by": caught,
}
json.dump(meta, open(os.path.join(dst, "meta.json"), "w"), indent=1)
print("archived", dst, verdicts)
