"""Stub descriptions of harness modules that must not be imported by the runner process (they patch pyrtma modules on import)."""
C12_STUBS = ["pyrtma.parser.YAML -> stub returning the per-file dictionary of the scenario (YAML surface syntax outside the claim); the files are real files so resolve()/chdir()/is_dir() are the real ones",
             "Parser.logger -> NullLogger; Parser built without __init__'s logging handlers"]
