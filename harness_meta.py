"""Stub descriptions of harness modules that must not be imported by the runner process (they patch pyrtma modules on import)."""
C12_STUBS = ["pyrtma.parser.YAML -> stub returning the per-file dictionary of the scenario (YAML surface syntax outside the claim); the files are real files so resolve()/chdir()/is_dir() are the real ones",
             "Parser.logger -> NullLogger; Parser built without __init__'s logging handlers"]
C17_STUBS = ["threading.Event objects of DataCollection -> flags owned by a scheduler; the methods touching them -> generator twins rebuilt from the current source (engine/cotwin.py)",
             "data_collection.time.time -> harness clock (a deadline passes when the harness advances it)", "writer thread -> generator; write_thread.is_alive() -> True",
             "files: real files in a scratch directory; replay: real threads with Event wrappers that park each thread until the schedule grants it the turn"]
CMP_STUBS = ["open() in the four compiler modules -> in-memory capture", "subprocess.run (black formatter) -> no-op (re-formatting only)",
             "Parser.logger -> NullLogger; definitions are fed to the real handle_* methods as the dictionaries YAML would produce"]
