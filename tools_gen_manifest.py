"""Regenerates MANIFEST.json from props/*.py (each exposes MANIFEST = {...}) so that the file is always valid."""
import importlib, json, os, sys
ROOT = os.path.dirname(os.path.abspath(__file__))
sys.path.insert(0, ROOT)
IDS = ["C%02d" % i for i in range(1, 20)]
NA = {
    "C16": "solver-based checking cannot apply: run-to-run byte identity and 'core_defs.py is what the compiler produces today' are statements about concrete artefacts of a pipeline (ruamel.yaml, filesystem, black subprocess) with nothing symbolic to quantify over; see DESIGN.md 4.16",
}
checks, na = [], []
for pid in IDS:
    if pid in NA:
        na.append({"property_id": pid, "reason": NA[pid]}); continue
    try:
        m = importlib.import_module("props." + pid.lower())
        man = m.MANIFEST
    except Exception as e:
        na.append({"property_id": pid, "reason": "check not built yet in this round (planned in DESIGN.md section 4; not a statement about the technique)"}); continue
    checks.append({
        "property_id": pid,
        "quick_cmd": "bin/check %s quick" % pid,
        "thorough_cmd": "bin/check %s thorough" % pid,
        "evidence_file": "evidence/%s.json" % pid,
        "replay_cmd_template": "bin/check %s --replay {path}" % pid,
        "engine": "crosshair-z3",
        "level_claimed": {"category": "other", "text": man["text"], "design_ref": man.get("design_ref", "DESIGN.md section 4")},
        "level_note": man["note"],
        "technique": man.get("technique", "bounded symbolic execution of the real Python functions (CrossHair 0.0.110) with z3 deciding every path; counterexamples replayed on real ctypes"),
    })
doc = {
    "version": 1,
    "setup_cmd": "bin/ensure_env",
    "hooks": {"guard": "PITT_RNEL_PYRTMA_VERIF", "enable": "none needed: all stubs are installed from the harness process by rebinding names on imported pyrtma modules; /repo is never edited by a check",
              "baseline_off_cmd": "cd /repo && /venv/bin/python -m pytest -ra -q -p no:cacheprovider --timeout=900 --continue-on-collection-errors",
              "source_commits": [], "add_only": True},
    "engines": [{"name": "crosshair-z3", "path": "engine/", "serves_properties": [c["property_id"] for c in checks],
                 "kind_free_text": "symbolic execution of the real pyrtma functions (CrossHair + z3) over a validated ctypes shadow layer; direct z3 queries where the object is a table or string template"}],
    "checks": checks,
    "not_applicable": na,
    "notes": "exit 3 = harness error (no verdict); INCONCLUSIVE lines and evidence.coverage.inconclusive list obligations the solver did not finish; known findings in known_findings.json",
}
json.dump(doc, open(os.path.join(ROOT, "MANIFEST.json"), "w"), indent=1)
print("checks:", [c["property_id"] for c in checks], "na:", [n["property_id"] for n in na])
