"""tools_mutate.py - development tool (NOT part of any registered check): evaluates the checks against small syntactic
mutants of the functions a property is anchored in.

  tools_mutate.py list  <file.py> <Qual.name>[,<Qual.name>...]            -> prints the mutants (index, line, kind)
  tools_mutate.py make  <file.py> <names> <index> <outdir>                 -> writes a copy of /repo/src into <outdir>/src with mutant #index applied
  tools_mutate.py sweep <file.py> <names> <checks: C01,C03,...> [--jobs N] [--only i,j,k] [--out report.json]
        for every mutant: copy of src with the mutant, run each check's quick tier with VERIF_REPO pointing at it,
        record exit codes; survivors (every check exit 0) are then run through the repository test suite.

Mutation operators (ast-level, one change per mutant): comparison flips (< <=, > >=, == !=, in / not in, is / is not),
and/or swap, `not` removal, integer constant +1/-1, True/False swap, deletion of an expression statement / assignment /
augmented assignment / continue / break / return-with-value->return None, `if c:` -> `if True:` / `if False:`.
"""
import ast
import copy
import json
import os
import shutil
import subprocess
import sys
import time

REPO_SRC = os.environ.get("MUT_REPO", "/repo") + "/src"
ROOT = os.path.dirname(os.path.abspath(__file__))

CMP = {ast.Lt: ast.LtE, ast.LtE: ast.Lt, ast.Gt: ast.GtE, ast.GtE: ast.Gt, ast.Eq: ast.NotEq, ast.NotEq: ast.Eq,
       ast.In: ast.NotIn, ast.NotIn: ast.In, ast.Is: ast.IsNot, ast.IsNot: ast.Is}


def _targets(tree, names):
    """ast nodes of the named functions/methods ('Class.method' or 'func')"""
    out = []
    for n in names:
        parts = n.split(".")
        scope = tree.body
        node = None
        for p in parts:
            node = next((x for x in scope if isinstance(x, (ast.FunctionDef, ast.ClassDef, ast.AsyncFunctionDef)) and x.name == p), None)
            if node is None:
                raise SystemExit("no such definition: %s" % n)
            scope = node.body
        out.append(node)
    return out


def _is_log_stmt(st):
    """logging / print statements: mutating them is never property-relevant"""
    if isinstance(st, ast.Expr) and isinstance(st.value, ast.Call):
        f = st.value.func
        s = ast.unparse(f)
        return any(k in s for k in ("logger.", "print", "logging.", ".debug", ".info", ".warning", ".error", ".critical", ".exception"))
    return False


def enumerate_mutants(src, names):
    """-> list of (description, lineno, new_source)"""
    tree = ast.parse(src)
    muts = []
    fns = _targets(tree, names)

    def emit(desc, lineno):
        muts.append((desc, lineno, ast.unparse(tree)))

    for fn in fns:
        for node in ast.walk(fn):
            if isinstance(node, ast.Compare):
                for i, op in enumerate(node.ops):
                    if type(op) in CMP:
                        old = node.ops[i]
                        node.ops[i] = CMP[type(op)]()
                        emit("cmp %s->%s" % (type(old).__name__, type(node.ops[i]).__name__), node.lineno)
                        node.ops[i] = old
            elif isinstance(node, ast.BoolOp):
                old = node.op
                node.op = ast.Or() if isinstance(old, ast.And) else ast.And()
                emit("boolop swap", node.lineno)
                node.op = old
                if len(node.values) > 1:
                    for i in range(len(node.values)):
                        oldv = node.values
                        node.values = oldv[:i] + oldv[i + 1:]
                        if len(node.values) == 1:
                            # keep a BoolOp with a duplicated operand to stay syntactically valid
                            node.values = node.values * 2
                        emit("boolop drop operand %d" % i, node.lineno)
                        node.values = oldv
            elif isinstance(node, ast.UnaryOp) and isinstance(node.op, ast.Not):
                # replace `not x` by `x` in the parent: simulate by double negation trick (wrap operand in not not -> remove)
                old = node.op
                node.op = ast.UAdd()  # +x keeps truthiness for bool/int operands; invalid for others -> mutant crashes (fine)
                emit("not removed", node.lineno)
                node.op = old
            elif isinstance(node, ast.Constant) and isinstance(node.value, bool):
                old = node.value
                node.value = not old
                emit("bool const flip", node.lineno)
                node.value = old
            elif isinstance(node, ast.Constant) and isinstance(node.value, int) and not isinstance(node.value, bool):
                old = node.value
                for d in (1, -1):
                    node.value = old + d
                    emit("int const %d->%d" % (old, old + d), node.lineno)
                node.value = old
            elif isinstance(node, ast.If) or isinstance(node, ast.While):
                old = node.test
                for v in (True, False):
                    if isinstance(node, ast.While) and v:
                        continue
                    node.test = ast.Constant(value=v)
                    emit("%s cond -> %s" % (type(node).__name__.lower(), v), node.lineno)
                node.test = old
            # statement deletions
            for field in ("body", "orelse", "finalbody"):
                body = getattr(node, field, None)
                if not isinstance(body, list) or not body or not isinstance(body[0], ast.stmt):
                    continue
                for i, st in enumerate(body):
                    if _is_log_stmt(st):
                        continue
                    if isinstance(st, (ast.Expr, ast.Assign, ast.AugAssign, ast.Continue, ast.Break, ast.Delete, ast.Raise)):
                        if isinstance(st, ast.Expr) and isinstance(st.value, ast.Constant):
                            continue  # docstring
                        old = body[i]
                        body[i] = ast.Pass()
                        ast.copy_location(body[i], old)
                        emit("delete %s: %s" % (type(old).__name__, ast.unparse(old)[:60].replace("\n", " ")), old.lineno)
                        body[i] = old
                    elif isinstance(st, ast.Return) and st.value is not None:
                        oldv = st.value
                        if isinstance(oldv, ast.Constant) and isinstance(oldv.value, bool):
                            continue  # covered by bool flip
                        st.value = None
                        emit("return value dropped", st.lineno)
                        st.value = oldv
    # de-duplicate identical sources
    seen = set()
    out = []
    for d, l, s in muts:
        if s in seen:
            continue
        seen.add(s)
        out.append((d, l, s))
    return out


def make(relfile, names, idx, outdir):
    src = open(os.path.join(REPO_SRC, relfile)).read()
    muts = enumerate_mutants(src, names)
    d, l, s = muts[idx]
    dst = os.path.join(outdir, "src")
    if os.path.exists(dst):
        shutil.rmtree(dst)
    shutil.copytree(REPO_SRC, dst, ignore=shutil.ignore_patterns("__pycache__", "*.pyc", "*.egg-info"))
    with open(os.path.join(dst, relfile), "w") as f:
        f.write(s)
    return d, l


def run_check(check, repo, jobs, timeout=1500):
    env = dict(os.environ, VERIF_REPO=repo, VERIF_JOBS=str(jobs), VERIF_EVIDENCE_DIR=os.path.join(repo, "evidence"),
               VERIF_REPLAY_DIR=os.path.join(repo, "replay"))
    t0 = time.time()
    try:
        p = subprocess.run([os.path.join(ROOT, "bin", "check"), check, "quick"], capture_output=True, text=True, timeout=timeout, env=env)
        rc, out = p.returncode, p.stdout
    except subprocess.TimeoutExpired:
        rc, out = 124, ""
    lines = [x for x in out.splitlines() if x.startswith(("VIOLATION", "SUMMARY", "HARNESS", "INCONCLUSIVE", "  obligation="))]
    return {"check": check, "rc": rc, "wall": round(time.time() - t0), "lines": lines[:8]}


def run_suite(repo, timeout=900):
    env = dict(os.environ, PYTHONPATH=os.path.join(repo, "src"))
    try:
        p = subprocess.run(["/venv/bin/python", "-m", "pytest", "-q", "-p", "no:cacheprovider", "--timeout=600", "-x",
                            "--deselect", "tests/test_encoding.py::test_message_encoding", os.environ.get("MUT_REPO", "/repo") + "/tests"],
                           capture_output=True, text=True, timeout=timeout, env=env, cwd=repo)
        return {"rc": p.returncode, "tail": p.stdout.strip().splitlines()[-1:] if p.stdout.strip() else []}
    except subprocess.TimeoutExpired:
        return {"rc": 124, "tail": ["timeout"]}


def main():
    cmd = sys.argv[1]
    relfile = sys.argv[2]
    names = sys.argv[3].split(",")
    src = open(os.path.join(REPO_SRC, relfile)).read()
    if cmd == "list":
        for i, (d, l, s) in enumerate(enumerate_mutants(src, names)):
            print(i, l, d)
        return
    if cmd == "make":
        print(make(relfile, names, int(sys.argv[4]), sys.argv[5]))
        return
    if cmd == "sweep":
        # phase A: the repository's own test suite on every mutant (6 at a time; it mostly sleeps) - a mutant the suite
        # kills is of no interest; phase B: the checks, one mutant at a time (each check uses all cores)
        import concurrent.futures as cf
        checks = sys.argv[4].split(",")
        args = sys.argv[5:]
        jobs = int(args[args.index("--jobs") + 1]) if "--jobs" in args else 16
        only = [int(x) for x in args[args.index("--only") + 1].split(",")] if "--only" in args else None
        if "--sample" in args:      # a deterministic sample of N mutants
            import random as _r
            n_all = len(enumerate_mutants(src, names))
            only = sorted(_r.Random(int(os.environ.get("MUT_SEED", "1"))).sample(range(n_all), min(n_all, int(args[args.index("--sample") + 1]))))
        outp = args[args.index("--out") + 1] if "--out" in args else "/tmp/mut_report.json"
        muts = enumerate_mutants(src, names)
        modname = relfile[:-3].replace("/", ".")
        idxs = [i for i in range(len(muts)) if only is None or i in only]
        base = "/tmp/mut/%d" % os.getpid()

        def phase_a(i):
            wd = "%s_%d" % (base, i)
            os.makedirs(wd, exist_ok=True)
            make(relfile, names, i, wd)
            env = dict(os.environ, PYTHONPATH=os.path.join(wd, "src"))
            p = subprocess.run(["/venv/bin/python", "-c", "import %s as m; assert m.__file__.startswith(%r), m.__file__" % (modname, wd)],
                               env=env, capture_output=True, text=True)
            if p.returncode != 0:
                shutil.rmtree(wd, ignore_errors=True)
                return i, "does-not-import", None
            r = run_suite(wd)
            if r["rc"] != 0:
                shutil.rmtree(wd, ignore_errors=True)
                return i, "killed-by-tests", r
            return i, "tests-pass", r

        report = []
        survivors = []
        with cf.ThreadPoolExecutor(max_workers=6) as ex:
            for i, st, r in ex.map(phase_a, idxs):
                d, l, _ = muts[i]
                if st == "tests-pass":
                    survivors.append(i)
                else:
                    report.append({"i": i, "line": l, "desc": d, "status": st})
        print("phase A: %d mutants, %d pass the test suite" % (len(idxs), len(survivors)), flush=True)
        for i in survivors:
            d, l, _ = muts[i]
            wd = "%s_%d" % (base, i)
            entry = {"i": i, "line": l, "desc": d, "checks": []}
            try:
                caught = False
                for c in checks:
                    r = run_check(c, wd, jobs)
                    entry["checks"].append(r)
                    if r["rc"] == 1:
                        caught = True
                        break
                if caught:
                    entry["status"] = "caught"
                elif any(r["rc"] not in (0, 1) for r in entry["checks"]):
                    entry["status"] = "harness-error-or-timeout"
                else:
                    entry["status"] = "SURVIVED"
            finally:
                shutil.rmtree(wd, ignore_errors=True)
            report.append(entry)
            print(json.dumps(entry), flush=True)
            with open(outp, "w") as f:
                json.dump(report, f, indent=1)
        with open(outp, "w") as f:
            json.dump(report, f, indent=1)
        print("DONE survivors:", [e["i"] for e in report if e["status"] == "SURVIVED"], "harness:", [e["i"] for e in report if e["status"].startswith("harness")])


if __name__ == "__main__":
    main()
