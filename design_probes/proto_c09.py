import math, z3
from typing import List
from pyrtma import validators as V
from crosshair.libimpl import builtinslib as BL
from crosshair.tracers import NoTracing
from crosshair.statespace import context_statespace

class ShCFloat:
    """model of ctypes.c_float(v).value: round-to-nearest-even double -> single -> double"""
    def __init__(self, v):
        with NoTracing():
            if isinstance(v, BL.PreciseIeeeSymbolicFloat):
                self.value = BL.PreciseIeeeSymbolicFloat(z3.fpToFP(z3.RNE(), z3.fpToFP(z3.RNE(), v.var, z3.Float32()), z3.Float64()))
                return
        import ctypes
        self.value = ctypes.c_float(v).value

def c09_float_many(a: float, b: float, c: float) -> bool:
    """
    post: _
    """
    fv = V.Float()
    fv._ctype = ShCFloat
    vals = [a, b, c]
    try:
        fv.validate_many(vals)
    except (TypeError, ValueError):
        return True
    # accepted: then no finite element may overflow to infinity as float32
    for x in vals:
        if not math.isinf(x) and math.isinf(ShCFloat(x).value):
            return False
    return True
