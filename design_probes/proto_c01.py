import contextvars
from typing import List
import pyrtma.manager as M
from pyrtma import core_defs as cd
from pyrtma.header import MessageHeader
from pyrtma.validators import disable_message_validation
from shadow import shadow_of, ModProxy, CtypesShim

ALL = cd.ALL_MESSAGE_TYPES
ShHeader = shadow_of(MessageHeader)

class LinearDefaultDict:
    def __init__(self, factory): self.f = factory; self.kv = []
    def __getitem__(self, k):
        for kk, v in self.kv:
            if kk == k: return v
        v = self.f(); self.kv.append((k, v)); return v
    def __setitem__(self, k, v):
        for i,(kk,_) in enumerate(self.kv):
            if kk == k: self.kv[i] = (kk, v); return
        self.kv.append((k, v))
    def items(self): return list(self.kv)
    def clear(self): self.kv.clear()

class FakeConn:
    def __init__(self, i): self.i = i; self.sent = []; self.closed = False
    def sendall(self, b):
        if isinstance(b, ShHeader):
            self.sent.append(("H", b._msg_type, b._src_mod_id, b._dest_mod_id, b._dest_host_id, b._num_data_bytes, b._msg_count))
        else:
            self.sent.append(("P", b))
    def close(self): self.closed = True

class NullLogger:
    def __getattr__(self, k): return lambda *a, **k: None

class SelShim:
    def select(self, r, w, x, t=None): return (list(r), list(w), [])

M.cd = ModProxy(cd)
M.ctypes = CtypesShim()
M.select = SelShim()
M.print = lambda *a, **k: None

def build(n):
    mm = object.__new__(M.MessageManager)
    mm.header_cls = ShHeader
    mm._logger = NullLogger()
    mm.modules = {}
    mm.logger_modules = set()
    mm.subscriptions = LinearDefaultDict(set)
    mm.message_counts = LinearDefaultDict(int)
    mm.traffic_counter = LinearDefaultDict(int)
    mm.sending_traffic = contextvars.ContextVar("st", default=False)
    mm.b_send_msg_timing = True
    mm.wlist = []
    lc = FakeConn(-1)
    mm.listen_socket = lc
    mm.mm_module = M.Module(uid=0, conn=lc, address=("", 0), header_cls=ShHeader, name="message_manager", mod_id=0, connected=True)
    mm.modules[lc] = mm.mm_module
    mods = []
    for i in range(n):
        c = FakeConn(i)
        m = M.Module(uid=i+1, conn=c, address=("h", 1000+i), header_cls=ShHeader, connected=True)
        mm.modules[c] = m
        mods.append(m)
    return mm, mods

def c01_two(msg_type: int, dest_mod: int, dest_host: int,
            id0: int, id1: int, log0: bool, log1: bool,
            s0: bool, s1: bool, a0: bool, a1: bool, w0: bool, w1: bool) -> bool:
    """
    pre: -2**31 <= msg_type < 2**31 and msg_type != 2147483647
    pre: -2**15 <= dest_mod < 2**15 and -2**15 <= dest_host < 2**15
    pre: 1 <= id0 <= 200 and 1 <= id1 <= 200
    pre: not (s0 and a0) and not (s1 and a1)
    pre: w0 and w1
    post: _
    """
    mm, mods = build(2)
    ids = [id0, id1]; logs = [log0, log1]; ss = [s0, s1]; aa = [a0, a1]; ww = [w0, w1]
    for m, i, l, s, a, w in zip(mods, ids, logs, ss, aa, ww):
        m.mod_id = i; m.is_logger = l
        if l: mm.logger_modules.add(m)
        if s:
            mm.subscriptions[msg_type].add(m); m.subs.add(1)
        if a:
            mm.subscriptions[ALL].add(m); m.subs.add(ALL)
        if w: mm.wlist.append(m.conn)
    sender = M.Module(uid=9, conn=FakeConn(9), address=("h", 9), header_cls=ShHeader, mod_id=50, connected=True)
    h = ShHeader()
    h._msg_type = msg_type; h._dest_mod_id = dest_mod; h._dest_host_id = dest_host; h._src_mod_id = 50; h._num_data_bytes = 3
    payload = b"abc"
    with disable_message_validation():
        mm.forward_message(sender, h, payload)
    ok = True
    for m, i, l, s, a, w in zip(mods, ids, logs, ss, aa, ww):
        valid = (0 <= dest_mod <= 200) and (0 <= dest_host <= 5)
        exp = valid and (s or a) and w and (dest_mod == 0 or i == dest_mod or l)
        hs = [x for x in m.conn.sent if x[0] == "H"]
        ps = [x for x in m.conn.sent if x[0] == "P"]
        if exp:
            if not (len(hs) == 1 and len(ps) == 1 and hs[0][1] == msg_type and hs[0][2] == 50 and hs[0][3] == dest_mod and hs[0][4] == dest_host and ps[0][1] is payload):
                ok = False
        else:
            if len(hs) != 0 or len(ps) != 0:
                ok = False
    return ok
