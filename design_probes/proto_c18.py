from proto_c14 import *
import pyrtma.manager as M

class ListCounter:
    def __init__(self, pairs): self.pairs = list(pairs)
    def items(self): return list(self.pairs)
    def __len__(self): return len(self.pairs)
    def clear(self): self.pairs = []

K = 2
def c18_traffic(t0: int, t1: int, t2: int, c0: int, c1: int, c2: int) -> bool:
    """
    pre: all(-2**31 <= t < 2**31 and t != -1 for t in (t0, t1, t2))
    pre: t0 != t1 and t0 != t2 and t1 != t2
    pre: all(1 <= c <= 65535 for c in (c0, c1, c2))
    post: _
    """
    mm, mods = build(0)
    pairs = [(t0, c0), (t1, c1), (t2, c2)][:K]
    # pad with concrete distinct filler types to reach interesting K
    mm.traffic_counter = ListCounter(pairs + [(100000 + j, 1) for j in range(FILL)])
    mm.traffic_start = 0.0; mm.traffic_seqno = 7
    sent = []
    def send_message(data, *a, **k):
        sent.append((data._seqno, data._sub_seqno, list(data._msg_type.items), list(data._msg_count.items)))
    mm.send_message = send_message
    with disable_message_validation():
        mm.send_traffic()
    got = []
    for seq, sub, types, counts in sent:
        for t, c in zip(types, counts):
            if t != -1:
                got.append((t, c))
    want = pairs + [(100000 + j, 1) for j in range(FILL)]
    if len(got) != len(want): return False
    for w in want:
        n = 0
        for g in got:
            if g[0] == w[0] and g[1] == w[1]: n += 1
        if n != 1: return False
    return True
FILL = 0
