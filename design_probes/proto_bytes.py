from pyrtma import validators as V
from pyrtma import core_defs as cd
from shadow import shadow_of

def name_get(b: bytes) -> bool:
    """
    pre: len(b) <= 3
    post: _
    """
    Sh = shadow_of(cd.MDF_CLIENT_SET_NAME)
    m = Sh()
    # model of ctypes read: stop at first NUL
    i = b.find(b"\x00")
    m._name = b if i < 0 else b[:i]
    try:
        s = m.name
    except UnicodeDecodeError:
        return False
    return True
