import pathlib, os, io
from typing import List
import pyrtma.parser as P
from pyrtma.parser import Parser, MessageIDError, ParserError

ROOT = pathlib.Path(__file__).parent / "fsroot"
FILES = ["r.yaml", "a.yaml", "b.yaml", "c.yaml"]
CUR = {}      # file name -> data dict (set per harness call)
ENTERED = []

class FakeYAML:
    def __init__(self, *a, **k): pass
    def load(self, text):
        name = text.strip()
        ENTERED.append(name)
        return CUR[name]
P.YAML = FakeYAML
class FakeFile(io.StringIO):
    pass
def fake_open(path, mode="rt"):
    return io.StringIO(pathlib.Path(path).name)
P.open = fake_open

def mk_parser():
    p = Parser.__new__(Parser)
    p.included_files = []; p.current_file = pathlib.Path(); p.root_path = pathlib.Path()
    p.debug = False; p.validate_alignment = True; p.auto_pad = True; p.import_coredefs = False
    p.clear()
    class L:
        def __getattr__(self, k): return lambda *a, **k: None
    p.logger = L()
    return p

def c12_closure(e_ra: bool, e_rb: bool, e_ab: bool, e_ac: bool, e_bc: bool, e_ca: bool,
                place1: int, place2: int, id1: int, id2: int) -> bool:
    """
    pre: 0 <= place1 < 4 and 0 <= place2 < 4
    pre: 0 <= id1 <= 10000 and 0 <= id2 <= 10000
    post: _
    """
    edges = {"r.yaml": [], "a.yaml": [], "b.yaml": [], "c.yaml": []}
    if e_ra: edges["r.yaml"].append("a.yaml")
    if e_rb: edges["r.yaml"].append("b.yaml")
    if e_ab: edges["a.yaml"].append("b.yaml")
    if e_ac: edges["a.yaml"].append("c.yaml")
    if e_bc: edges["b.yaml"].append("c.yaml")
    if e_ca: edges["c.yaml"].append("a.yaml")
    CUR.clear(); ENTERED.clear()
    for f in FILES:
        CUR[f] = {"imports": list(edges[f]) or None, "message_defs": {}}
    CUR[FILES[place1]]["message_defs"]["M1"] = {"id": id1, "fields": None}
    CUR[FILES[place2]]["message_defs"]["M2"] = {"id": id2, "fields": None}
    # reachability from root
    reach = set(); todo = ["r.yaml"]
    while todo:
        f = todo.pop()
        if f in reach: continue
        reach.add(f); todo.extend(edges[f])
    both = FILES[place1] in reach and FILES[place2] in reach
    p = mk_parser()
    cwd = os.getcwd()
    try:
        p.parse(ROOT / "r.yaml")
    except MessageIDError:
        os.chdir(cwd)
        return both and id1 == id2
    except ParserError:
        os.chdir(cwd)
        return False
    os.chdir(cwd)
    if both and id1 == id2: return False
    if sorted(ENTERED) != sorted(reach): return False
    return True
