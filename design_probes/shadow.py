"""Prototype: ctypes-free shadow of pyrtma message classes, reusing the REAL validator descriptors."""
import ctypes, types
from pyrtma import validators as V
from pyrtma.message_base import MessageBase

INT_RANGE = {
    ctypes.c_int8:(8,True), ctypes.c_uint8:(8,False), ctypes.c_int16:(16,True), ctypes.c_uint16:(16,False),
    ctypes.c_int32:(32,True), ctypes.c_uint32:(32,False), ctypes.c_int64:(64,True), ctypes.c_uint64:(64,False),
}

def wrap_int(v, bits, signed):
    m = 1 << bits
    v = v % m
    if signed and v >= (m >> 1):
        v -= m
    return v

class ShadowArray:
    """fixed length list with ctypes-like semantics (negative index wraps, IndexError outside)"""
    def __init__(self, n, init):
        self.n = n
        self.items = [init() for _ in range(n)]
    def _ix(self, i):
        if i < 0:
            i += self.n
        if i < 0 or i >= self.n:
            raise IndexError("invalid index")
        return i
    def __len__(self): return self.n
    def __getitem__(self, k):
        if isinstance(k, slice):
            return self.items[k]
        k = self._ix(k)
        for j in range(self.n):
            if j == k:
                return self.items[j]
    def __setitem__(self, k, v):
        if isinstance(k, slice):
            idx = range(*k.indices(self.n))
            v = list(v)
            if len(v) != len(idx):
                raise ValueError("Can only assign sequence of same size")
            for j, x in zip(idx, v):
                self.items[j] = x
            return
        k = self._ix(k)
        for j in range(self.n):
            if j == k:
                self.items[j] = v
                return
    def __iter__(self): return iter(self.items)

_cache = {}

def shadow_of(cls):
    """Build a ctypes-free twin of a MessageBase subclass."""
    if cls in _cache:
        return _cache[cls]
    ns = {}
    fields = []
    inits = {}
    for pname, ftype, *_ in cls._fields_:
        name = pname[1:]
        desc = cls.__dict__.get(name)
        if desc is None:
            for b in cls.__mro__:
                if name in b.__dict__:
                    desc = b.__dict__[name]; break
        fields.append((pname, ftype))
        if isinstance(desc, V.StructArray):
            sc = shadow_of(desc._validator._ctype)
            nd = V.StructArray.__new__(V.StructArray); nd._validator = V.Struct(sc); nd._len = desc._len; nd._bound_obj=None; nd._ctype=None
            inits[pname] = (lambda sc=sc, n=desc._len: ShadowArray(n, sc))
        elif isinstance(desc, V.Struct):
            sc = shadow_of(desc._ctype)
            nd = V.Struct(sc)
            inits[pname] = sc
        elif isinstance(desc, V.ArrayField):
            nd = type(desc).__new__(type(desc)); nd.__dict__.update({k:v for k,v in desc.__dict__.items() if k in ('_validator','_len','_ctype')}); nd._bound_obj=None
            inits[pname] = (lambda n=desc._len: ShadowArray(n, int))
        elif isinstance(desc, V.Char):
            nd = V.Char(); inits[pname] = (lambda: b"\x00")
        elif isinstance(desc, V.String):
            nd = V.String(desc.len); inits[pname] = (lambda: b"")
        else:
            nd = type(desc)()
            inits[pname] = (lambda: 0)
        ns[name] = nd
    for k in ("type_id","type_name","type_hash","type_size","type_source","type_def"):
        if hasattr(cls, k):
            ns[k] = getattr(cls, k)
    def __init__(self):
        for p, f in inits.items():
            object.__setattr__(self, p, f())
    ns["__init__"] = __init__
    ns["_fields_"] = fields
    ns["_real"] = cls
    ns["size"] = property(lambda self: ctypes.sizeof(cls))
    for prop in ("version",):
        if hasattr(cls, prop):
            ns[prop] = getattr(cls, prop)
    @classmethod
    def from_buffer(c, obj, *a):
        return obj
    ns["from_buffer"] = from_buffer
    sc = type("Sh_" + cls.__name__, (object,), ns)
    _cache[cls] = sc
    return sc

class ModProxy:
    """module proxy: MessageBase subclasses are replaced by shadows"""
    def __init__(self, mod):
        object.__setattr__(self, "_mod", mod)
    def __getattr__(self, k):
        v = getattr(self._mod, k)
        if isinstance(v, type) and issubclass(v, MessageBase):
            return shadow_of(v)
        return v

class CtypesShim:
    def __getattr__(self, k): return getattr(ctypes, k)
    def sizeof(self, x):
        r = getattr(x, "_real", None)
        if r is not None: return ctypes.sizeof(r)
        return ctypes.sizeof(x)
