from typing import List
import pyrtma.parser as P
from pyrtma.parser import Parser, Field, SDF, NativeType, AlignmentError
import pathlib

NT = {1: P.supported_types["int8"], 2: P.supported_types["int16"], 4: P.supported_types["int32"], 8: P.supported_types["int64"]}

def c_layout(fields):
    """reference model of natural C layout: returns (offsets, size, align)"""
    ptr = 0; offs = []; al = 1
    for f in fields:
        a = f.alignment
        if a > al: al = a
        if ptr % a: ptr += a - ptr % a
        offs.append(ptr); ptr += f.size
    if ptr % al: ptr += al - ptr % al
    return offs, ptr, al

def mk_parser(auto_pad):
    p = object.__new__(Parser)
    p.auto_pad = auto_pad
    p.warning = lambda msg: None
    p.get_ctype_size = lambda s: c_layout(s.fields)[1]
    return p

def size_of(k: int) -> int:
    if k == 0: return 1
    if k == 1: return 2
    if k == 2: return 4
    return 8

def c11_three(k0: int, k1: int, k2: int, n0: int, n1: int, n2: int, nf: int) -> bool:
    """
    pre: 0 <= k0 < 4 and 0 <= k1 < 4 and 0 <= k2 < 4
    pre: 0 <= n0 <= 70000 and 0 <= n1 <= 70000 and 0 <= n2 <= 70000
    pre: 1 <= nf <= 3
    post: _
    """
    p = mk_parser(True)
    s = SDF(raw="", hash="", name="S", src=pathlib.Path("x"))
    user = []
    for i, (k, n) in enumerate(((k0, n0), (k1, n1), (k2, n2))):
        if i < nf:
            f = Field(name=f"u{i}", type_name="t", type_obj=NT[size_of(k)], length=(n if n > 0 else None))
            s.fields.append(f); user.append(f)
    p.check_alignment(s)
    # user fields preserved, in order
    kept = [f for f in s.fields if not f.name.startswith("padding_")]
    if len(kept) != len(user): return False
    for a, b in zip(kept, user):
        if a is not b: return False
    pads = [f for f in s.fields if f.name.startswith("padding_")]
    for f in pads:
        if f.type_name != "char" or f.type_obj.size != 1: return False
    # offsets aligned, contiguous, size multiple of strictest alignment
    ptr = 0; strict = 1
    for f in s.fields:
        if f in user:
            if f.offset != ptr: return False
            if f.offset % f.alignment != 0: return False
        if f.alignment > strict: strict = f.alignment
        ptr += f.size
    if s.size != ptr: return False
    if s.size % strict != 0: return False
    offs, csize, cal = c_layout(s.fields)
    if csize != s.size: return False
    if s.alignment != cal: return False
    return True

def c11_fixed(n0: int, n1: int, n2: int) -> bool:
    """
    pre: 0 <= n0 <= 70000 and 0 <= n1 <= 70000 and 0 <= n2 <= 70000
    post: _
    """
    return c11_three(KINDS[0], KINDS[1], KINDS[2], n0, n1, n2, 3)
KINDS = (0, 3, 1)
