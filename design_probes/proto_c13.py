import pathlib
from typing import List
import pyrtma.parser as P
from pyrtma.parser import Parser

class IdHash:
    def __init__(self, b): self.b = b
    def hexdigest(self): return self.b
class SymBytesHolder:
    pass
def fake_sha256(b): return IdHash(b)
P.sha256 = fake_sha256
class TW:
    @staticmethod
    def dedent(s): return s
P.textwrap = TW

class FieldMap(dict):
    """dict subclass (passes isinstance checks) with list storage -> keys are never hashed"""
    def __init__(self, pairs): dict.__init__(self); self.pairs = list(pairs)
    def items(self): return list(self.pairs)
    def keys(self): return [k for k, _ in self.pairs]
    def __getitem__(self, k):
        for kk, v in self.pairs:
            if kk == k: return v
        raise KeyError(k)
    def __len__(self): return len(self.pairs)

class EncStr(str):
    pass

def raw_of(name, mid, fields):
    """run the REAL handle_message_def far enough to get raw (we stop it at validate_msg_id by capturing)"""
    p = object.__new__(Parser)
    p.current_file = pathlib.Path("/x/a.yaml"); p.root_path = pathlib.Path("/x")
    p.constants = {}; p.string_constants = {}; p.aliases = {}; p.struct_defs = {}; p.message_defs = {}; p.message_ids = {}
    captured = []
    def validate_msg_id(n, i): captured.append(1)
    p.validate_msg_id = validate_msg_id
    p.add_fields = lambda obj, f: None
    p.check_name = lambda n: None
    p.check_duplicate_name = lambda *a, **k: None
    mdf = FieldMap([("id", mid), ("fields", FieldMap(fields) if fields is not None else None)])
    p.handle_message_def(name, mdf)
    return p.message_defs[name].raw

ALPH = "ab:"
def ok(s, n):
    return len(s) <= n and len(s) >= 1 and all(c in ALPH for c in s)

def c13_inj(n1: str, n2: str, i1: int, i2: int, f1: str, t1: str, f2: str, t2: str) -> bool:
    """
    pre: ok(n1, 2) and ok(n2, 2) and ok(f1, 2) and ok(f2, 2) and ok(t1, 2) and ok(t2, 2)
    pre: 0 <= i1 < 100 and 0 <= i2 < 100
    pre: (n1, i1, f1, t1) != (n2, i2, f2, t2)
    post: _
    """
    r1 = raw_of(n1, i1, [(f1, t1)])
    r2 = raw_of(n2, i2, [(f2, t2)])
    return r1 != r2
