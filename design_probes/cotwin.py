"""AST-rewrite the real DataCollection methods into generator twins that yield at every
threading.Event operation (regenerated from the current source)."""
import ast, inspect, textwrap, types
import pyrtma.data_logger.data_collection as DC

EVENTS = {"write_to_disk", "write_finished"}
OPS = {"set", "clear", "is_set", "wait"}

class Rewriter(ast.NodeTransformer):
    def __init__(self, gens): self.gens = gens; self.hit = False
    def visit_Call(self, node):
        self.generic_visit(node)
        f = node.func
        if isinstance(f, ast.Attribute) and f.attr in OPS and isinstance(f.value, ast.Attribute) \
           and f.value.attr in EVENTS and isinstance(f.value.value, ast.Name) and f.value.value.id == "self":
            self.hit = True
            return ast.Yield(value=ast.Tuple(elts=[ast.Constant(f.value.attr), ast.Constant(f.attr)] + node.args, ctx=ast.Load()))
        if isinstance(f, ast.Attribute) and isinstance(f.value, ast.Name) and f.value.id == "self" and f.attr in self.gens:
            self.hit = True
            return ast.YieldFrom(value=node)
        return node

def build():
    src = textwrap.dedent(inspect.getsource(DC.DataCollection))
    tree = ast.parse(src)
    cls = tree.body[0]
    methods = {n.name: n for n in cls.body if isinstance(n, ast.FunctionDef)}
    gens = set()
    # fixpoint: which methods (transitively) touch events
    changed = True
    while changed:
        changed = False
        for name, fn in methods.items():
            if name in gens: continue
            for c in ast.walk(fn):
                if isinstance(c, ast.Call) and isinstance(c.func, ast.Attribute):
                    f = c.func
                    if (f.attr in OPS and isinstance(f.value, ast.Attribute) and f.value.attr in EVENTS) or \
                       (isinstance(f.value, ast.Name) and f.value.id == "self" and f.attr in gens):
                        gens.add(name); changed = True; break
    new_body = []
    for name in sorted(gens):
        fn = Rewriter(gens).visit(methods[name])
        fn.name = "co_" + name
        new_body.append(fn)
    # calls to self.X for X in gens were rewritten to yield from self.X(...): rename to co_X
    class Ren(ast.NodeTransformer):
        def visit_YieldFrom(self, n):
            self.generic_visit(n)
            n.value.func.attr = "co_" + n.value.func.attr
            return n
    mod = ast.Module(body=[Ren().visit(f) for f in new_body], type_ignores=[])
    ast.fix_missing_locations(mod)
    ns = dict(DC.__dict__)
    exec(compile(mod, "<cotwin:data_collection>", "exec"), ns)
    return {n: ns["co_" + n] for n in gens}, gens

if __name__ == "__main__":
    fns, gens = build()
    print(sorted(gens))
    print(ast.unparse(ast.parse(textwrap.dedent(inspect.getsource(DC.DataCollection))).body[0]) [:0])
