import io, logging
from typing import List
import pyrtma
import pyrtma.data_logger  # registers formatters
import pyrtma.data_logger.data_collection as DC
import pyrtma.data_logger.data_set as DS
from pyrtma.data_logger.formatters.raw import RawFormatter
from pyrtma import core_defs as cd
from pyrtma.message import Message
from pyrtma.header import MessageHeader
import cotwin

CO, _ = cotwin.build()
for n, f in CO.items():
    setattr(DC.DataCollection, "co_" + n, f)

class Clock:
    def __init__(self): self.t = 1000.0
    def time(self): return self.t
CLOCK = Clock()
class TimeShim:
    def time(self): return CLOCK.time()
DC.time = TimeShim()
DC.print = lambda *a, **k: None

class Ev:
    def __init__(self): self.flag = False

def mk_msgs(n):
    out = []
    for i in range(n):
        h = MessageHeader(); d = cd.MDF_MODULE_READY(); h.msg_type = d.type_id; h.num_data_bytes = d.type_size; d.pid = i + 1
        out.append(Message(h, d))
    return out
MSGS = mk_msgs(4)

def mk_collection():
    c = object.__new__(DC.DataCollection)
    c._dead = True; c.logger = logging.getLogger("null"); c.logger.disabled = True
    c._recording = True; c._paused = False; c._close = False
    c._elapsed_time = 0.0; c.ref_time = 1000.0; c.start_time = 1000.0
    c.next_write = DC.DataCollection.WRITE_PERIOD
    c.name = "c"; c.use_thread = True; c.save_path = "p"; c.base_path = "b"
    class T: 
        def is_alive(self): return True
    c.write_thread = T()
    c.write_to_disk = Ev(); c.write_finished = Ev()
    ds = object.__new__(DS.DataSet)
    ds.logger = c.logger; ds.name = "d"; ds.formatter_cls = RawFormatter
    ds.fd = io.BytesIO(); ds.formatter = RawFormatter(ds.fd)
    ds.rbuf = []; ds.wbuf = []; ds.msg_types = [cd.MT_MODULE_READY]; ds.all_sub = False
    ds.subdivide_flag = False; ds.next_subdivide = float("inf"); ds.subdivide_interval = float("inf")
    ds.sub_index = 0; ds.collection_stopped = False
    ds.close = lambda: None
    c.datasets = [ds]
    return c, ds

def recorder(c, nmsg, deadlines):
    for i in range(nmsg):
        if deadlines[i]:
            CLOCK.t += 20.0
        yield from c.co_update(MSGS[i])
    yield from c.co_stop()

class Thread:
    def __init__(self, gen): self.gen = gen; self.pending = None; self.done = False; self.started = False
    def enabled(self, c, closing):
        if self.done: return False
        p = self.pending
        if p is not None and p[1] == "wait":
            ev = getattr(c, p[0])
            return ev.flag or closing   # a timed wait may time out only once shutdown is requested
        return True
    def step(self, c):
        try:
            if not self.started:
                self.started = True
                self.pending = next(self.gen)
                return
            p = self.pending
            ev = getattr(c, p[0]); op = p[1]
            if op == "set": ev.flag = True; r = None
            elif op == "clear": ev.flag = False; r = None
            elif op == "is_set": r = ev.flag
            else: r = ev.flag
            self.pending = self.gen.send(r)
        except StopIteration:
            self.done = True

def run(nmsg, deadlines, sched):
    CLOCK.t = 1000.0
    c, ds = mk_collection()
    rec = Thread(recorder(c, nmsg, deadlines)); wr = Thread(c.co_write())
    k = 0
    while not rec.done:
        er = rec.enabled(c, False); ew = wr.enabled(c, False)
        if er and ew:
            if k >= len(sched): return None          # schedule budget exhausted: outside the bound
            pick_w = sched[k]; k += 1
        elif er: pick_w = False
        elif ew: pick_w = True
        else: return "deadlock"
        (wr if pick_w else rec).step(c)
    # recorder finished stop(); let the writer drain and exit
    c._close = True
    guard = 0
    while not wr.done and guard < 50:
        wr.step(c); guard += 1
    return ds.fd.getvalue()

def expected(nmsg):
    return b"".join(bytes(m.header) + bytes(m.data) for m in MSGS[:nmsg])

def c17_raw(d0: bool, d1: bool, d2: bool, sched: List[bool]) -> bool:
    """
    pre: len(sched) <= 14
    post: _
    """
    out = run(3, [d0, d1, d2], sched)
    if out is None: return True
    return out == expected(3)
