import z3, time, sys
from z3_c13 import *
def query(k1, k2, maxlen, to=120000, dump=None):
    s = z3.Solver(); s.set("timeout", to)
    n1, n2, i1, i2 = z3.Strings("n1 n2 i1 i2")
    s.add(ident(n1), ident(n2), num(i1), num(i2))
    F1 = [(z3.String(f"f1_{j}"), z3.String(f"t1_{j}")) for j in range(k1)]
    F2 = [(z3.String(f"f2_{j}"), z3.String(f"t2_{j}")) for j in range(k2)]
    allv = [n1, n2, i1, i2]
    for f, t in F1 + F2: s.add(ident(f), typetext(t)); allv += [f, t]
    if maxlen:
        for v in allv: s.add(z3.Length(v) <= maxlen)
    r1 = raw_msg(n1, i1, F1) if k1 else raw_sig(n1, i1)
    r2 = raw_msg(n2, i2, F2) if k2 else raw_sig(n2, i2)
    s.add(r1 == r2)
    if k1 == k2:
        diff = [n1 != n2, i1 != i2] + [z3.Or(a[0] != b[0], a[1] != b[1]) for a, b in zip(F1, F2)]
        s.add(z3.Or(*diff))
    if dump:
        open(dump, "w").write("(set-logic QF_SLIA)\n" + s.to_smt2())
    t = time.time(); r = s.check(); dt = time.time() - t
    print("k", k1, k2, "maxlen", maxlen, r, "%.2fs" % dt, flush=True)
if __name__ == "__main__":
    import z3_c13
