import runner, sys
from crosshair.libimpl import builtinslib as BL
BL._PYTYPE_TO_WRAPPER_TYPE[float] = ((BL.PreciseIeeeSymbolicFloat, 1.0),)
runner.run(sys.argv[1], sys.argv[2], float(sys.argv[3]))
