from proto_c14 import *
import errno

class FaultConn(FrameConn):
    def __init__(self, i): super().__init__(i); self.fail = False
    def sendall(self, b):
        if self.closed: raise OSError(errno.EBADF, "Bad file descriptor")
        if self.fail: raise ConnectionResetError()
        super().sendall(b)
import proto_c01
proto_c01.FakeConn = FaultConn

def c03_two_dead(msg_type: int, fail0: bool, fail1: bool, closed_sub0: bool, closed_sub1: bool) -> bool:
    """
    pre: 100 <= msg_type < 10000
    post: _
    """
    mm, mods = build(2)
    CLOSED = 33
    for m, i, f, cs in zip(mods, (10, 11), (fail0, fail1), (closed_sub0, closed_sub1)):
        m.mod_id = i; m.conn.fail = f
        mm.subscriptions[msg_type].add(m); m.subs.add(msg_type)
        if cs:
            mm.subscriptions[CLOSED].add(m); m.subs.add(CLOSED)
        mm.wlist.append(m.conn)
    sender = M.Module(uid=9, conn=FaultConn(9), address=("h", 9), header_cls=ShHeader, mod_id=50, connected=True)
    h = ShHeader(); h._msg_type = msg_type; h._src_mod_id = 50; h._num_data_bytes = 3
    with disable_message_validation():
        try:
            mm.forward_message(sender, h, b"abc")
        except Exception:
            return False
    return True
