from typing import List
import pyrtma.client as C
import pyrtma.message as MSG
from pyrtma import core_defs as cd
from pyrtma.header import MessageHeader
from pyrtma.exceptions import *
from shadow import shadow_of, ModProxy
from proto_c02 import LinearSet
from proto_c01 import NullLogger

ShHeader = shadow_of(MessageHeader)
HS = 48

class Defs:
    """stands for message._msg_defs: two real classes with different sizes"""
    def __init__(self): self.kv = [(cd.MT_MODULE_READY, cd.MDF_MODULE_READY), (cd.MT_CONNECT_V2, cd.MDF_CONNECT_V2)]
    def __getitem__(self, k):
        for kk, v in self.kv:
            if kk == k: return v
        raise KeyError(k)
MSG._msg_defs = Defs()

class Desync(Exception): pass

class ScriptSock:
    def __init__(self, frames):
        self.frames = frames      # list of (msg_type, nbytes, version)
        self.starts = []
        p = 0
        for f in frames:
            self.starts.append(p); p += HS + f[1]
        self.end = p
        self.pos = 0
        self.filled = []          # (object, start, n)
    def recv_into(self, buf, n, flags=0):
        if isinstance(buf, ShHeader):
            k = None
            for j, s in enumerate(self.starts):
                if s == self.pos: k = j
            if k is None:
                if self.pos == self.end: return 0      # peer closed after last frame
                raise Desync()
            mt, nb, ver = self.frames[k]
            buf._msg_type = mt; buf._num_data_bytes = nb; buf._reserved = ver
            self.pos += n
            return n
        self.filled.append((buf, self.pos, n)); self.pos += n
        return n
    def recv(self, n, flags=0):
        if n < 0: raise ValueError("negative buffersize in recv")
        self.pos += n
        return b""
    def close(self): pass

class Sel:
    def select(self, r, w, x, t=None): return (list(r), [], [])
C.select = Sel()

def mk_client(frames, subs, sub_all):
    c = object.__new__(C.Client)
    c._connected = True; c._sub_all = sub_all
    c._subscribed_types = LinearSet(subs); c._paused_types = LinearSet()
    c._header_cls = ShHeader
    c._sock = ScriptSock(frames)
    return c

def c08_two(mt0: int, nb0: int, v0: int, mt1: int, nb1: int, v1: int, sync: bool) -> bool:
    """
    pre: -2**31 <= mt0 < 2**31 and -2**31 <= mt1 < 2**31
    pre: 0 <= nb0 <= 65535 and 0 <= nb1 <= 65535
    pre: 0 <= v0 < 2**32 and 0 <= v1 < 2**32
    post: _
    """
    frames = [(mt0, nb0, v0), (mt1, nb1, v1)]
    c = mk_client(frames, [], True)
    sock = c._sock
    for k in range(2):
        mt, nb, ver = frames[k]
        known = (mt == cd.MT_MODULE_READY) or (mt == cd.MT_CONNECT_V2)
        size = 4 if mt == cd.MT_MODULE_READY else 44
        try:
            m = c.read_message(timeout=None, sync_check=sync)
        except UnknownMessageType:
            if known: return False
        except InvalidMessageDefinition:
            if not known: return False
            h = cd.MDF_MODULE_READY.type_hash if mt == cd.MT_MODULE_READY else cd.MDF_CONNECT_V2.type_hash
            if nb == size and not (sync and ver != 0 and ver != h): return False
        except Desync:
            return False
        else:
            if not known or nb != size: return False
            if m.header._msg_type != mt: return False
        # whole frame consumed
        if sock.pos != sock.starts[k] + HS + nb: return False
    return True
