from proto_c01 import *

class FrameConn(FakeConn):
    def __init__(self, i): super().__init__(i); self.frames = []; self._h = None
    def sendall(self, b):
        if isinstance(b, ShHeader):
            assert self._h is None
            self._h = (b._msg_type, b._src_mod_id, b._dest_mod_id, b._dest_host_id, b._num_data_bytes, b._msg_count)
        else:
            assert self._h is not None
            self.frames.append((self._h, b)); self._h = None

import proto_c01
proto_c01.FakeConn = FrameConn
FM = 8

def c14_two(msg_type: int, dest_mod: int, dest_host: int,
            id0: int, id1: int, log0: bool, log1: bool,
            s0: bool, s1: bool, a0: bool, a1: bool, w0: bool, w1: bool, f0: bool, f1: bool) -> bool:
    """
    pre: -2**31 <= msg_type < 2**31 and msg_type != 2147483647
    pre: -2**15 <= dest_mod < 2**15 and -2**15 <= dest_host < 2**15
    pre: 1 <= id0 <= 200 and 1 <= id1 <= 200
    pre: not (s0 and a0) and not (s1 and a1)
    pre: not (f0 and a0) and not (f1 and a1)
    post: _
    """
    mm, mods = build(2)
    ids = [id0, id1]; logs = [log0, log1]; ss = [s0, s1]; aa = [a0, a1]; ww = [w0, w1]; ff = [f0, f1]
    for m, i, l, s, a, w, f in zip(mods, ids, logs, ss, aa, ww, ff):
        m.mod_id = i; m.is_logger = l
        if l: mm.logger_modules.add(m)
        if s:
            mm.subscriptions[msg_type].add(m); m.subs.add(1)
        if f:
            mm.subscriptions[FM].add(m); m.subs.add(FM)
        if a:
            mm.subscriptions[ALL].add(m); m.subs.add(ALL)
        if w: mm.wlist.append(m.conn)
    sender = M.Module(uid=9, conn=FrameConn(9), address=("h", 9), header_cls=ShHeader, mod_id=50, connected=True)
    h = ShHeader()
    h._msg_type = msg_type; h._dest_mod_id = dest_mod; h._dest_host_id = dest_host; h._src_mod_id = 50; h._num_data_bytes = 3
    payload = b"abc"
    with disable_message_validation():
        mm.forward_message(sender, h, payload)
    valid = (0 <= dest_mod <= 200) and (0 <= dest_host <= 5)
    guard = msg_type in (8, 40, 41, 42, 43, 44, 45)
    ok = True
    subd = [(s or a or (f and msg_type == FM)) for s, a, f in zip(ss, aa, ff)]
    # who is an undeliverable eligible subscriber (not writable, not logger)?  NOTE: code reports before dest filter
    for k in range(2):
        m = mods[k]
        orig = [fr for fr in m.conn.frames if fr[1] is payload]
        exp = valid and subd[k] and (ww[k] or logs[k]) and (dest_mod == 0 or ids[k] == dest_mod or logs[k])
        if exp:
            if not (len(orig) == 1 and orig[0][0][0] == msg_type and orig[0][0][1] == 50 and orig[0][0][2] == dest_mod and orig[0][0][3] == dest_host):
                ok = False
        elif len(orig) != 0:
            ok = False
    return ok
