import z3, time
S = z3.StringSort()
def ident(v):   # [A-Za-z][A-Za-z0-9_]*
    letter = z3.Union(z3.Range("a","z"), z3.Range("A","Z"))
    rest = z3.Star(z3.Union(letter, z3.Range("0","9"), z3.Re("_")))
    return z3.InRe(v, z3.Concat(letter, rest))
def typetext(v):  # letters digits _ space [ ] * + -   (no newline, no colon)
    ch = z3.Union(z3.Range("a","z"), z3.Range("A","Z"), z3.Range("0","9"), z3.Re("_"), z3.Re(" "), z3.Re("["), z3.Re("]"), z3.Re("*"), z3.Re("+"), z3.Re("-"))
    return z3.InRe(v, z3.Plus(ch))
def num(v):
    return z3.InRe(v, z3.Union(z3.Re("0"), z3.Concat(z3.Range("1","9"), z3.Star(z3.Range("0","9")))))
def c(*xs): 
    r = xs[0]
    for x in xs[1:]: r = z3.Concat(r, x)
    return r
L = z3.StringVal
def raw_msg(name, idtxt, fields):
    lines = [c(L("    "), fn, L(": "), ft) for fn, ft in fields]
    body = lines[0]
    for l in lines[1:]: body = c(body, L("\n"), l)
    return c(name, L(":\n  id: "), idtxt, L("\n  fields:\n"), body)
def raw_sig(name, idtxt):
    return c(name, L(":\n  id: "), idtxt, L("\n  fields: null"))
def raw_reuse(name, idtxt, other):
    return c(name, L(":\n  id: "), idtxt, L("\n  fields:\n"), L("    fields: "), other)

def query(k1, k2, label):
    s = z3.Solver(); s.set("timeout", 60000)
    n1, n2, i1, i2 = z3.Strings("n1 n2 i1 i2")
    s.add(ident(n1), ident(n2), num(i1), num(i2))
    F1 = [(z3.String(f"f1_{j}"), z3.String(f"t1_{j}")) for j in range(k1)]
    F2 = [(z3.String(f"f2_{j}"), z3.String(f"t2_{j}")) for j in range(k2)]
    for f, t in F1 + F2: s.add(ident(f), typetext(t))
    r1 = raw_msg(n1, i1, F1) if k1 else raw_sig(n1, i1)
    r2 = raw_msg(n2, i2, F2) if k2 else raw_sig(n2, i2)
    s.add(r1 == r2)
    if k1 == k2:
        diff = [n1 != n2, i1 != i2] + [z3.Or(a[0] != b[0], a[1] != b[1]) for a, b in zip(F1, F2)]
        s.add(z3.Or(*diff))
    t = time.time(); r = s.check(); dt = time.time() - t
    print(label, k1, k2, r, "%.2fs" % dt, s.model() if str(r) == "sat" else "")
if __name__ == '__main__':
  for k1 in range(0, 3):
    for k2 in range(k1, 3):
        query(k1, k2, "msg-vs-msg")
if False:
    pass
# reuse
if __name__ == '__main__':
  pass
s = z3.Solver(); n1, i1, o, f, t = z3.Strings("n1 i1 o f t"); s.add(ident(n1), num(i1), ident(o), ident(f), typetext(t))
s.add(raw_reuse(n1, i1, o) == raw_msg(n1, i1, [(f, t)])); t0=time.time(); print("reuse-vs-1field", s.check(), "%.2fs"%(time.time()-t0), s.model() if s.check()==z3.sat else "")
