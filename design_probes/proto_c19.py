from proto_c14 import *
import pyrtma.manager as M

class PayloadBuf:
    """stands for data_buffer: from_buffer(cls) yields a shadow whose fields are the harness-provided arbitrary values"""
    def __init__(self): self.vals = {}

_REAL = dict(M._get_core_defs())
class CoreTable:
    def __init__(self):
        self.kv = [(tid, shadow_of(cls)) for tid, cls in _REAL.items()]
    def get(self, k):
        for kk, v in self.kv:
            if kk == k: return v
        return None
def install_core_defs(mm):
    pass

def from_buffer_factory(sh):
    @classmethod
    def from_buffer(c, buf, *a):
        if isinstance(buf, PayloadBuf):
            o = c()
            for k, v in buf.vals.items():
                if hasattr(o, "_" + k): object.__setattr__(o, "_" + k, v)
            return o
        return buf
    return from_buffer
for tid, cls in _REAL.items():
    sh = shadow_of(cls); sh.from_buffer = from_buffer_factory(sh)
M._get_core_defs = lambda: CoreTable()
shadow_of(MessageHeader).from_buffer = classmethod(lambda c, buf, *a: buf)

def c19_sub(ctrl: int, sub_type: int, src_id: int, is_all: bool, nlog: int, log_self: bool) -> bool:
    """
    pre: 0 <= ctrl < 4
    pre: -2**31 <= sub_type < 2**31
    pre: 1 <= src_id <= 199
    pre: 0 <= nlog <= 2
    post: _
    """
    mm, mods = build(3)
    install_core_defs(mm)
    src, l1, l2 = mods
    src.mod_id = src_id; src.is_logger = log_self
    if log_self: mm.logger_modules.add(src)
    if is_all:
        src.subs.add(ALL); mm.subscriptions[ALL].add(src)
    for k, m in enumerate((l1, l2)):
        m.mod_id = 150 + k
        if k < nlog:
            m.is_logger = True; mm.logger_modules.add(m)
    mm.wlist = [m.conn for m in mods]
    h = ShHeader()
    h._msg_type = [cd.MT_SUBSCRIBE, cd.MT_UNSUBSCRIBE, cd.MT_PAUSE_SUBSCRIPTION, cd.MT_RESUME_SUBSCRIPTION][ctrl]
    h._src_mod_id = src_id; h._num_data_bytes = 4
    mm.header_view = h
    buf = PayloadBuf(); buf.vals["msg_type"] = sub_type
    mm.data_buffer = buf
    with disable_message_validation():
        mm.process_message(src)
    acks = lambda m: [f for f in m.conn.frames if f[0][0] == cd.MT_ACKNOWLEDGE]
    a = acks(src)
    want_self = 1 + (1 if log_self else 0)
    if len(a) != want_self: return False
    for f in a:
        if f[0][2] != src_id or f[0][1] != 0: return False
    for k, m in enumerate((l1, l2)):
        if len(acks(m)) != (1 if k < nlog else 0): return False
    return True
