import contextvars
from typing import List
import pyrtma.manager as M
import pyrtma.client as C
from pyrtma import core_defs as cd
from pyrtma.header import MessageHeader
from pyrtma.message import Message
from shadow import shadow_of, ModProxy, CtypesShim
from proto_c01 import LinearDefaultDict, NullLogger, ShHeader

ALL = cd.ALL_MESSAGE_TYPES

class LinearSet:
    def __init__(self, it=()):
        self.xs = []
        for x in it: self.add(x)
    def __contains__(self, x):
        for y in self.xs:
            if y == x: return True
        return False
    def add(self, x):
        if x not in self: self.xs.append(x)
    def discard(self, x):
        self.xs = [y for y in self.xs if not (y == x)]
    def clear(self): self.xs = []
    def __iter__(self): return iter(list(self.xs))
    def __len__(self): return len(self.xs)
    def __ior__(self, o):
        for x in o: self.add(x)
        return self
    def __isub__(self, o):
        for x in o: self.discard(x)
        return self
    def same(self, o):
        return all(x in o for x in self.xs) and all(y in self for y in o)

C.set = LinearSet
C.cd = ModProxy(cd)
M.cd = ModProxy(cd)

def mk_client():
    c = object.__new__(C.Client)
    c._connected = True
    c._sub_all = False
    c._subscribed_types = LinearSet()
    c._paused_types = LinearSet()
    c._module_id = 10
    c.sent = []
    def send_message(msg_data, *a, **k):
        c.sent.append((msg_data.type_id, msg_data.msg_type))
    c.send_message = send_message
    return c

def mk_mgr():
    mm = object.__new__(M.MessageManager)
    mm._logger = NullLogger()
    mm.subscriptions = LinearDefaultDict(LinearSet)
    mod = M.Module(uid=1, conn=object(), address=("h", 1), header_cls=ShHeader, mod_id=10, connected=True, subs=LinearSet())
    return mm, mod

class Msg:  # stands for Message(header, data) as used by add_subscription: only .data used
    def __init__(self, data): self.data = data

def apply_ctrl(mm, mod, frames):
    for tid, mt in frames:
        d = shadow_of(cd.MDF_SUBSCRIBE)()
        d._msg_type = mt
        if tid == cd.MT_SUBSCRIBE: mm.add_subscription(mod, Msg(d))
        elif tid == cd.MT_UNSUBSCRIBE: mm.remove_subscription(mod, Msg(d))
        elif tid == cd.MT_PAUSE_SUBSCRIPTION: mm.pause_subscription(mod, Msg(d))
        elif tid == cd.MT_RESUME_SUBSCRIPTION: mm.resume_subscription(mod, Msg(d))

OPS = ["subscribe", "unsubscribe", "pause_subscription", "resume_subscription"]

def agree(c, mm, mod, probe):
    # manager would deliver `probe` to mod  <=> client reports it subscribed (or sub_all)
    deliver = (mod in mm.subscriptions[probe]) or (mod in mm.subscriptions[ALL])
    client_says = (probe in c.subscribed_types) or c._sub_all
    return deliver == client_says

def c02_two_ops(op1: int, op2: int, l1: List[int], l2: List[int], probe: int) -> bool:
    """
    pre: 0 <= op1 < 4 and 0 <= op2 < 4
    pre: len(l1) <= 2 and len(l2) <= 2
    pre: all(-2**31 <= x < 2**31 for x in l1) and all(-2**31 <= x < 2**31 for x in l2)
    pre: -2**31 <= probe < 2**31 and probe != 2147483647
    post: _
    """
    c = mk_client(); mm, mod = mk_mgr()
    for op, l in ((op1, l1), (op2, l2)):
        c.sent = []
        try:
            getattr(c, OPS[op])(l)
        except C.InvalidSubscription:
            if c.sent: return False
        apply_ctrl(mm, mod, c.sent)
    return agree(c, mm, mod, probe)
