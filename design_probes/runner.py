import sys, time, importlib
from crosshair.core_and_libs import analyze_function, run_checkables, MessageType
from crosshair.options import AnalysisOptionSet, AnalysisKind
import crosshair.core as core
from crosshair.libimpl import builtinslib as BL
from crosshair.tracers import NoTracing

_orig_format = BL._format
def _format_stub(obj, format_spec=""):
    with NoTracing():
        if isinstance(obj, (BL.SymbolicInt, BL.SymbolicBool, BL.SymbolicFloat)):
            return "<sym>"
    return _orig_format(obj, format_spec)
core._PATCH_REGISTRATIONS[format] = _format_stub

def run(modname, fname, cond_timeout=120, path_timeout=20):
    mod = importlib.import_module(modname)
    fn = getattr(mod, fname)
    opts = AnalysisOptionSet(per_condition_timeout=cond_timeout, per_path_timeout=path_timeout, report_all=True,
                             analysis_kind=[AnalysisKind.PEP316], max_uninteresting_iterations=10**9)
    t = time.time()
    msgs = run_checkables(analyze_function(fn, opts))
    dt = time.time() - t
    for m in msgs:
        print(m.state, m.message[:300])
    print("time %.1fs" % dt)
    return msgs

if __name__ == "__main__":
    run(sys.argv[1], sys.argv[2], float(sys.argv[3]) if len(sys.argv) > 3 else 120)
