import sys, time, importlib
from crosshair.core_and_libs import analyze_function, run_checkables
from crosshair.options import AnalysisOptionSet, AnalysisKind
def run(modname, fname, t):
    mod = importlib.import_module(modname); fn = getattr(mod, fname)
    opts = AnalysisOptionSet(per_condition_timeout=t, per_path_timeout=30, report_all=True, analysis_kind=[AnalysisKind.PEP316], max_uninteresting_iterations=10**9)
    t0 = time.time(); msgs = run_checkables(analyze_function(fn, opts))
    for m in msgs: print(m.state, m.message[:400])
    print("time %.1f" % (time.time() - t0))
run(sys.argv[1], sys.argv[2], float(sys.argv[3]))
