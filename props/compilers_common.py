"""Descriptor space shared by C04 and C15 (see harness/compilers.py)."""

S = ["struct", "PT", [["x", "double", 0], ["tags", "int16", 4]]]
S2 = ["struct", "PAIR", [["a", "int8", 0], ["b", "int32", 0]]]
NATIVE_MSG = ["msg", "NAT", [["c", "char", 0], ["i8", "int8", 3], ["u16", "uint16", 0], ["f", "float", 2], ["d", "double", 0], ["q", "unsigned long long", 0]]]
DESCRIPTORS = {
    "natives": {"defs": [NATIVE_MSG], "imported": 0},
    "all_native_names": {"defs": [["msg", "EVERY", [["f%d" % i, n, 0] for i, n in enumerate(
        ["char", "signed char", "unsigned char", "byte", "int", "unsigned", "short", "unsigned short", "long", "unsigned long", "long long",
         "float", "double", "uint8", "uint16", "uint32", "uint64", "int8", "int16", "int32", "int64", "signed int", "unsigned int",
         "signed short", "signed long", "signed long long", "unsigned long long"])]]], "imported": 0},
    "alias_native": {"defs": [["alias", "AGE", "int32"], ["msg", "P", [["age", "AGE", 0], ["ages", "AGE", 3]]]], "imported": 0},
    "alias_alias": {"defs": [["alias", "AGE", "int16"], ["alias", "YEARS", "AGE"], ["struct", "H", [["y", "YEARS", 0], ["z", "AGE", 2]]], ["msg", "M", [["h", "H", 0]]]], "imported": 0},
    "struct_nested": {"defs": [S, ["struct", "BOX", [["lo", "PT", 0], ["hi", "PT", 0], ["n", "int32", 0]]], ["msg", "B", [["box", "BOX", 0], ["boxes", "BOX", 2]]]], "imported": 0},
    "struct_array_msg": {"defs": [S, ["msg", "POS", [["p", "PT", 0], ["pts", "PT", 3], ["name", "char", 8]]], ["signal", "PING"]], "imported": 0},
    "msg_in_msg": {"defs": [["msg", "INNER", [["v", "int32", 0]]], ["msg", "OUTER", [["i", "INNER", 0], ["arr", "INNER", 2]]]], "imported": 0},
    "padding": {"defs": [S2, ["msg", "PADME", [["c", "char", 0], ["p", "PAIR", 0], ["d", "double", 0], ["t", "char", 3]]]], "imported": 0},
    "signals_only": {"defs": [["signal", "GO"], ["signal", "STOP"], ["signal", "RESET"]], "imported": 0},
    "imported_struct_field": {"defs": [S, ["msg", "USE", [["p", "PT", 0], ["n", "int32", 0]]]], "imported": 1},
    "imported_alias_field": {"defs": [["alias", "ID_T", "uint16"], ["struct", "REC", [["id", "ID_T", 0], ["ids", "ID_T", 2]]], ["msg", "RECS", [["r", "REC", 2]]]], "imported": 1},
    "imported_msg_in_msg": {"defs": [["msg", "INNER", [["v", "int32", 0]]], ["msg", "OUTER", [["i", "INNER", 0]]]], "imported": 1},
    "constant_expressions": {"consts": [["RATE", 1000], ["PERIOD", "1/RATE"], ["N_CH", 7], ["HALF", "N_CH/2"], ["TWICE", "N_CH*2"], ["GAIN", 2.5],
                                        ["SCALED", "GAIN*N_CH"], ["LEN", "N_CH + 1"], ["NEG", "3 - N_CH"], ["PAREN", "(N_CH + 1)/4"], ["EXACT", "8/2"]],
                             "defs": [["msg", "BUF", [["data", "int16", "LEN"], ["more", "double", "N_CH*2"]]]], "imported": 0},
    # --- the same shapes with ids running against definition order (a nested message has the larger id)
    "msg_in_msg_ids_descending": {"defs": [["msg", "INNER", [["v", "int32", 0]]], ["msg", "OUTER", [["i", "INNER", 0], ["arr", "INNER", 2]]], ["signal", "PING"]], "imported": 0, "idorder": "desc"},
    "imported_msg_in_msg_ids_descending": {"defs": [["msg", "INNER", [["v", "int32", 0]]], ["msg", "OUTER", [["i", "INNER", 0]]], ["msg", "THIRD", [["o", "OUTER", 2]]]], "imported": 1, "idorder": "desc"},
    # --- a second compilation in one process: the same names mean something else than in the first (state kept by a back end
    #     or by the parser module between two compilations must not leak)
    "recompile_alias_redefined": {"prior": {"defs": [["alias", "SAMPLE_T", "int16"], ["struct", "REC", [["v", "SAMPLE_T", 0], ["vs", "SAMPLE_T", 4]]], ["msg", "CAL", [["r", "REC", 0], ["g", "SAMPLE_T", 4]]]]},
                                  "defs": [["alias", "SAMPLE_T", "double"], ["struct", "REC", [["v", "SAMPLE_T", 0], ["vs", "SAMPLE_T", 4]]], ["msg", "CAL", [["r", "REC", 0], ["g", "SAMPLE_T", 4]]]], "imported": 0},
    "recompile_struct_redefined": {"prior": {"defs": [S, ["msg", "POS", [["p", "PT", 0], ["pts", "PT", 3]]]]},
                                   "defs": [["struct", "PT", [["a", "int32", 0], ["b", "uint8", 4]]], ["msg", "POS", [["p", "PT", 0], ["pts", "PT", 3]]]], "imported": 0},
    "recompile_msg_redefined": {"prior": {"defs": [["msg", "INNER", [["v", "int32", 0]]], ["msg", "OUTER", [["i", "INNER", 0], ["arr", "INNER", 2]]], ["signal", "PING"]],
                                          "consts": [["N_CH", 4], ["LEN", "N_CH*2"]]},
                                "consts": [["N_CH", 7], ["LEN", "N_CH + 1"]],
                                "defs": [["msg", "INNER", [["v", "double", 0], ["k", "int16", "LEN"]]], ["msg", "PING", [["i", "INNER", 0]]], ["signal", "OUTER"]], "imported": 0},
    "recompile_alias_becomes_struct": {"prior": {"defs": [["alias", "T", "uint16"], ["msg", "USE", [["t", "T", 0], ["ts", "T", 2]]]]},
                                       "defs": [["struct", "T", [["lo", "int32", 0], ["hi", "int32", 0]]], ["msg", "USE", [["t", "T", 0], ["ts", "T", 2]]]], "imported": 0},
    # --- shapes the documented grammar allows but whose emission order the back ends get wrong (known findings)
    "alias_of_imported_struct": {"kf": "C15-alias-of-struct-order", "defs": [S, ["alias", "POINT", "PT"], ["msg", "USEA", [["p", "POINT", 0]]]], "imported": 1},
    "alias_of_imported_struct_in_struct": {"kf": "C15-alias-of-struct-order", "defs": [S, ["alias", "POINT", "PT"], ["struct", "SEG", [["a", "POINT", 0], ["b", "POINT", 0]]]], "imported": 1},
    "struct_uses_imported_message": {"kf": "C15-struct-uses-message-order", "defs": [["msg", "INNER", [["v", "int32", 0]]], ["struct", "WRAP", [["m", "INNER", 0], ["k", "int32", 0]]], ["msg", "W", [["w", "WRAP", 0]]]], "imported": 1},
}
KNOWN_BAD = ("alias_of_imported_struct", "alias_of_imported_struct_in_struct", "struct_uses_imported_message")
GOOD = [k for k in DESCRIPTORS if k not in KNOWN_BAD]


def generated(natives=("char", "int8", "uint16", "int32", "float", "double", "unsigned long long", "byte", "signed char")):
    """systematic family: every kind of field type x scalar/array x container kind x (type defined here / in an imported file)"""
    out = {}
    for ti, tkind in enumerate(("native", "alias", "alias2", "struct", "struct_arr_elem", "message")):
        for arr in (0, 3):
            for cont in ("struct", "msg"):
                for imp in (0, 1):
                    for ni, nat in enumerate(natives if tkind in ("native", "alias") else natives[:1]):
                        pre = []
                        if tkind == "native":
                            t = nat
                            if imp:
                                continue
                        elif tkind == "alias":
                            pre = [["alias", "AL", nat]]
                            t = "AL"
                        elif tkind == "alias2":
                            pre = [["alias", "AL", "int16"], ["alias", "AL2", "AL"]]
                            t = "AL2"
                        elif tkind in ("struct", "struct_arr_elem"):
                            pre = [["struct", "ST", [["a", "int8", 0], ["b", "double", 0]] if tkind == "struct" else [["a", "int16", 0], ["c", "char", 3]]]]
                            t = "ST"
                        else:
                            pre = [["msg", "MG", [["v", "int32", 0], ["w", "int8", 0]]]]
                            t = "MG"
                            if cont == "struct":
                                continue      # a struct cannot refer to a message of its own file (struct_defs are read first); the imported case is a known finding
                        container = [cont, "CONT", [["c0", "char", 0], ["f1", t, arr], ["tail", "int8", 0]]]
                        defs = pre + [container]
                        if cont == "struct":
                            defs.append(["msg", "USER", [["s", "CONT", 0]]])
                        out["gen_%s_%s_%d_%d_%d" % (tkind, cont, arr, imp, ni)] = {"defs": defs, "imported": len(pre) if imp else 0}
    return out


ALL_GOOD = dict((k, DESCRIPTORS[k]) for k in GOOD)
ALL_GOOD.update(generated())
