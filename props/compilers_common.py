"""Descriptor space shared by C04 and C15 (see harness/compilers.py)."""

S = ["struct", "PT", [["x", "double", 0], ["tags", "int16", 4]]]
S2 = ["struct", "PAIR", [["a", "int8", 0], ["b", "int32", 0]]]
NATIVE_MSG = ["msg", "NAT", [["c", "char", 0], ["i8", "int8", 3], ["u16", "uint16", 0], ["f", "float", 2], ["d", "double", 0], ["q", "unsigned long long", 0]]]
DESCRIPTORS = {
    "natives": {"defs": [NATIVE_MSG], "imported": 0},
    "all_native_names": {"defs": [["msg", "EVERY", [["f%d" % i, n, 0] for i, n in enumerate(
        ["char", "signed char", "unsigned char", "byte", "int", "unsigned", "short", "unsigned short", "long", "unsigned long", "long long",
         "float", "double", "uint8", "uint16", "uint32", "uint64", "int8", "int16", "int32", "int64", "signed int", "unsigned int",
         "signed short", "signed long", "signed long long", "unsigned long long"])]]], "imported": 0},
    "alias_native": {"defs": [["alias", "AGE", "int32"], ["msg", "P", [["age", "AGE", 0], ["ages", "AGE", 3]]]], "imported": 0},
    "alias_alias": {"defs": [["alias", "AGE", "int16"], ["alias", "YEARS", "AGE"], ["struct", "H", [["y", "YEARS", 0], ["z", "AGE", 2]]], ["msg", "M", [["h", "H", 0]]]], "imported": 0},
    "struct_nested": {"defs": [S, ["struct", "BOX", [["lo", "PT", 0], ["hi", "PT", 0], ["n", "int32", 0]]], ["msg", "B", [["box", "BOX", 0], ["boxes", "BOX", 2]]]], "imported": 0},
    "struct_array_msg": {"defs": [S, ["msg", "POS", [["p", "PT", 0], ["pts", "PT", 3], ["name", "char", 8]]], ["signal", "PING"]], "imported": 0},
    "msg_in_msg": {"defs": [["msg", "INNER", [["v", "int32", 0]]], ["msg", "OUTER", [["i", "INNER", 0], ["arr", "INNER", 2]]]], "imported": 0},
    "padding": {"defs": [S2, ["msg", "PADME", [["c", "char", 0], ["p", "PAIR", 0], ["d", "double", 0], ["t", "char", 3]]]], "imported": 0},
    "signals_only": {"defs": [["signal", "GO"], ["signal", "STOP"], ["signal", "RESET"]], "imported": 0},
    "imported_struct_field": {"defs": [S, ["msg", "USE", [["p", "PT", 0], ["n", "int32", 0]]]], "imported": 1},
    "imported_alias_field": {"defs": [["alias", "ID_T", "uint16"], ["struct", "REC", [["id", "ID_T", 0], ["ids", "ID_T", 2]]], ["msg", "RECS", [["r", "REC", 2]]]], "imported": 1},
    "imported_msg_in_msg": {"defs": [["msg", "INNER", [["v", "int32", 0]]], ["msg", "OUTER", [["i", "INNER", 0]]]], "imported": 1},
    # --- shapes the documented grammar allows but whose emission order the back ends get wrong (known findings)
    "alias_of_imported_struct": {"kf": "C15-alias-of-struct-order", "defs": [S, ["alias", "POINT", "PT"], ["msg", "USEA", [["p", "POINT", 0]]]], "imported": 1},
    "alias_of_imported_struct_in_struct": {"kf": "C15-alias-of-struct-order", "defs": [S, ["alias", "POINT", "PT"], ["struct", "SEG", [["a", "POINT", 0], ["b", "POINT", 0]]]], "imported": 1},
    "struct_uses_imported_message": {"kf": "C15-struct-uses-message-order", "defs": [["msg", "INNER", [["v", "int32", 0]]], ["struct", "WRAP", [["m", "INNER", 0], ["k", "int32", 0]]], ["msg", "W", [["w", "WRAP", 0]]]], "imported": 1},
}
KNOWN_BAD = ("alias_of_imported_struct", "alias_of_imported_struct_in_struct", "struct_uses_imported_message")
GOOD = [k for k in DESCRIPTORS if k not in KNOWN_BAD]
