"""C09 - field validation is sound, complete and atomic."""
from engine.runner import Obligation

VALIDATORS = ["engine.validate_shadow"]
H = "harness.c09_valid"
ENC = ["pyrtma.validators:IntValidatorBase.validate_one", "pyrtma.validators:IntValidatorBase.validate_many",
       "pyrtma.validators:IntValidatorBase.__set__", "pyrtma.validators:FloatValidatorBase.validate_one",
       "pyrtma.validators:FloatValidatorBase.validate_many", "pyrtma.validators:FloatValidatorBase.__set__",
       "pyrtma.validators:Byte.validate_one", "pyrtma.validators:Byte.validate_many", "pyrtma.validators:Byte.__set__",
       "pyrtma.validators:String.validate_one", "pyrtma.validators:String.__set__", "pyrtma.validators:String.__get__",
       "pyrtma.validators:Char.validate_one", "pyrtma.validators:Char.__set__",
       "pyrtma.validators:ArrayField.__setitem__", "pyrtma.validators:ArrayField.__set__", "pyrtma.validators:ArrayField.validate_many",
       "pyrtma.validators:ByteArray.__setitem__", "pyrtma.validators:ByteArray.__getitem__",
       "pyrtma.validators:Struct.validate_one", "pyrtma.validators:Struct.validate_many", "pyrtma.validators:Struct.__set__",
       "pyrtma.validators:StructArray.__setitem__", "pyrtma.validators:disable_message_validation"]
STUBS = ["message object -> ctypes-free shadow of tests/test_msg_defs MDF_VALIDATOR_A carrying the real descriptor classes; private-field stores follow the ctypes model of engine/shadow.py (validated against ctypes on every run)",
         "ctypes.c_float(x).value -> z3 fp.to_fp(RNE, Float32) widened back to Float64; python float -> z3 Float64 (all bit patterns)"]
ASSUMPTIONS = ["the ctypes store model (engine/shadow.py), validated per run and on replay against the real class",
               "an empty sequence into an empty slice may be accepted or refused (not a domain question)",
               "assigning '' to a char field: read-back may be the previous NUL/empty value"]
INTS = ["int8", "int16", "int32", "int64", "uint8", "uint16", "uint32", "uint64", "byte"]
ARRS = ["int8_arr", "int16_arr", "int32_arr", "int64_arr", "uint8_arr", "uint16_arr", "uint32_arr", "uint64_arr"]
ALLF = INTS + ARRS + ["byte_arr", "float", "double", "float_arr", "double_arr", "string", "char", "struct"]


SHAPES_Q = [[0, 2], [1, 4], [0, 4], [2, 2], [3, 1], [-3, 6]]
SHAPES_T = SHAPES_Q + [[0, 1], [1, 3], [0, 3], [-6, -2], [4, 6], [-1, 4]]
SHAPES_ALL = [[a, b] for a in range(-6, 7) for b in range(-6, 7)]


def obligations(tier):
    q = tier == "quick"
    obs = [
        Obligation("int_scalar_exact_range", H, "h_int_scalar", [{"field": f} for f in INTS], cond_timeout=120, flags=("ieee",),
                   reach="h_int_scalar_reach", encoded=ENC, bounds="each of the 9 integer scalar kinds", symbolic="the assigned int, unbounded"),
        Obligation("int_array_element_any_position", H, "h_int_elem", [{"field": f} for f in ARRS + ["byte_arr"]], cond_timeout=200, flags=("ieee",),
                   reach="h_int_elem_reach", encoded=ENC, bounds="arrays of 4; index -6..6 (in range, negative, out of range)", symbolic="index, value (unbounded int)"),
        Obligation("int_array_slice_any_shape", H, "h_int_slice",
                   [{"field": f, "n": n, "ab": ab} for f in (("int8_arr", "uint16_arr") if q else ARRS) for n in ((0, 2, 3) if q else (0, 1, 2, 3, 4))
                    for ab in (SHAPES_Q if q else (SHAPES_ALL if f == "int16_arr" else SHAPES_T))]
                   + [{"field": f, "n": 3, "bad": b, "ab": ab} for f in (("int16_arr",) if q else ARRS) for b in ((0, 2, 8) if q else range(9)) for ab in ([0, 3], [1, 3])],
                   cond_timeout=400, path_timeout=60, flags=("ieee",), reach="h_int_slice_reach", reach_shards=[{"field": "int8_arr", "n": 2, "ab": [0, 2]}], encoded=ENC,
                   bounds="arrays of 4; slice shapes %s; sequences of 0..4 elements; one element of a wrong Python type at a symbolic position" % ("6 selected (in range, empty, reversed, clipped, negative)" if q else "all 169 (a,b) in -6..6 for int16_arr, 12 selected for the others"),
                   symbolic="every element (unbounded int), position of the bad element"),
        Obligation("float_scalar_overflow_and_rounding", H, "h_float_scalar", [{"field": "float"}, {"field": "double"}], cond_timeout=200, flags=("ieee",),
                   reach="h_float_scalar_reach", encoded=ENC, bounds="float32 and float64 scalar fields", symbolic="an IEEE-754 double, every bit pattern (NaN, +-inf, +-0, subnormals)"),
        Obligation("float_sequence_every_element_checked", H, "h_float_many",
                   [{"field": f, "n": n} for f in ("float_arr", "double_arr") for n in ((1, 2, 3) if q else (1, 2, 3, 4))], cond_timeout=900, path_timeout=300,
                   flags=("ieee",), reach="h_float_many_reach", reach_shards=[{"field": "float_arr", "n": 2}], encoded=ENC,
                   bounds="sequences of <= 3 (quick) / 4 (thorough) doubles through the element check the array assignment relies on",
                   symbolic="every element an IEEE-754 double (every bit pattern, so NaN next to an overflowing value included)"),
        Obligation("float_array_slice_store", H, "h_float_slice",
                   [{"field": f, "n": n, "ab": ab} for f in ("float_arr", "double_arr") for (n, ab) in (((1, [1, 2]), (2, [0, 2]), (2, [1, 4])) if q else ((1, [1, 2]), (2, [0, 2]), (2, [1, 4]), (2, [2, 4]), (3, [0, 3]), (1, [0, 2])))],
                   cond_timeout=600, path_timeout=200, flags=("ieee",), reach="h_float_slice_reach", reach_shards=[{"field": "float_arr", "n": 1, "ab": [1, 2]}], encoded=ENC,
                   bounds="slice assignment of 1-3 doubles at fixed bounds (right and wrong lengths)", symbolic="the doubles"),
        Obligation("string_and_char", H, "h_string", [{"field": "string"}, {"field": "char"}], cond_timeout=600, path_timeout=60, flags=("ieee",),
                   reach="h_string_reach", encoded=ENC, bounds="char[4] and char fields; str of length <= 4", symbolic="the string (arbitrary code points, NUL included)"),
        Obligation("byte_array_bytes", H, "h_byte_slice", [{"ab": ab} for ab in (SHAPES_Q if q else SHAPES_T)], cond_timeout=400, path_timeout=60, flags=("ieee",), reach="h_byte_slice_reach", encoded=ENC,
                   bounds="byte[4], bytes of length <= 5, selected slice shapes", symbolic="the bytes"),
        Obligation("wrong_python_types_refused", H, "h_wrongtype",
                   [{"field": f, "bad": b} for f in (ALLF if not q else ["int16", "uint8_arr", "byte", "byte_arr", "float", "float_arr", "string", "char", "struct"]) for b in range(9)],
                   cond_timeout=120, flags=("ieee",), reach="h_wrongtype_reach", reach_shards=[{"field": "int16", "bad": 0}], encoded=ENC,
                   bounds="9 wrong Python values (float, str, None, bytes, list, tuple, complex, object, NaN) into every field kind; array position symbolic", symbolic="array index"),
        Obligation("ctypes_arrays_held_to_the_field_range", H, "h_ctypes_seq",
                   [{"field": f, "src": src, "pos": pos, "extreme": ex} for f in (ARRS if not q else ["int8_arr", "uint8_arr", "int32_arr", "uint16_arr"])
                    for src in ("int8", "uint8", "int16", "uint16", "int32", "uint32", "int64", "uint64") for pos in ((1,) if q else (0, 1, 3)) for ex in ("max", "min")],
                   cond_timeout=120, flags=("ieee",), reach="h_ctypes_seq_reach", reach_shards=[{"field": "int8_arr", "src": "int8", "pos": 1, "extreme": "max"}], encoded=ENC,
                   bounds="ctypes arrays of every integer element type, holding that type's extreme value at one position, assigned (slice and whole-field) to integer array fields", symbolic="slice vs whole-field assignment"),
        Obligation("struct_types", H, "h_struct", [{"field": f, "cand": c} for f in ("struct", "struct_arr") for c in range(6)], cond_timeout=120, flags=("ieee",),
                   reach="h_struct_reach", encoded=ENC, bounds="struct and struct-array fields; right struct, two wrong struct classes, int, None, list", symbolic="array index"),
        Obligation("validation_on_after_disable_blocks", H, "h_disable", [{"depth": d} for d in (1, 2, 3)], cond_timeout=200, flags=("ieee",),
                   reach="h_disable_reach", encoded=ENC, bounds="nesting depth <= 3; each block left normally or by exception, each with ignore on/off", symbolic="exit bits, ignore bits"),
        Obligation("disable_block_of_another_thread_is_not_mine", H, "h_other_thread", [{"mode": "held"}, {"mode": "overlap"}], cond_timeout=200, flags=("ieee",),
                   reach="h_other_thread_reach", encoded=ENC,
                   bounds="one other (real, untraced) thread inside disable_message_validation() while this thread assigns; two blocks of two threads overlapping without nesting",
                   symbolic="the out-of-range int8 value and uint16 array element assigned by this thread"),
    ]
    return obs


MANIFEST = {
    "text": "For every validator kind of MDF_VALIDATOR_A, with the assigned value symbolic (unbounded ints, all 2^64 double bit patterns, strings/bytes up to the bound, indices and slice bounds, position of a bad element), "
            "the real descriptors either accept and read back the value (float32 rounding modelled in z3 FP) or raise leaving every field unchanged, refuse everything outside the domain, validation is on (flag and behaviour) after any nesting of disable blocks, and a disable block held by or overlapping with another thread does not switch it off for this thread. "
            "Each obligation is a CrossHair path-tree exhaustion with z3 (QF_FP for floats).",
    "note": "ctypes store model = engine/shadow.py (validated vs ctypes per run); float32 conversion as fp.to_fp RNE",
    "design_ref": "DESIGN.md 4.9",
}
