"""C04 - all language outputs of the compiler describe the same wire format (partial claim)."""
from engine.runner import Obligation
from props.compilers_common import DESCRIPTORS, GOOD, ALL_GOOD
from harness_meta import CMP_STUBS as STUBS  # noqa: F401
from props.c15 import ENC

VALIDATORS = ["engine.validate_layout"]
ASSUMPTIONS = [
    "partial claim: (1) type tables - total over the 27 native names, C widths measured with gcc; (2) layout - C11's obligation (natural C layout == packed sum for symbolic lengths) plus the gcc/ctypes replay; (3) emission - a fixed descriptor family with symbolic ids/constants",
    "MATLAB semantics are read from the emitted assignments (no interpreter); MATLAB has no char type (char is emitted as int8: same width)",
    "import graphs are C12's subject; constant expressions and YAML surface syntax are outside",
]


def obligations(tier):
    shards = [dict(ALL_GOOD[k], name=k, wellformed=1) for k in ALL_GOOD]
    return [
        Obligation("native_type_tables_agree", "harness.c04_tables", "tables", [{}], kind="script", cond_timeout=120, encoded=ENC,
                   bounds="the 27 native type names x 7 tables (parser sizes, parser ctypes table, python ctypes map, python descriptor map, C map measured with gcc, MATLAB map, JavaScript map)",
                   symbolic="the native type name (z3 enumerated sort): is there one on which two tables disagree or that a back end lacks"),
        Obligation("outputs_agree_with_each_other_and_the_parser", "harness.compilers", "c04", shards, cond_timeout=400, path_timeout=120,
                   reach="c04_reach", reach_shards=[dict(DESCRIPTORS["struct_array_msg"], wellformed=1)], encoded=ENC,
                   bounds="%d definition descriptors (see C15); per definition: field names, order, element class (width/kind) and array lengths read back from the python, C, JavaScript and MATLAB texts; ids and hashes" % len(shards),
                   symbolic="the base message id (ids base, base+1, ...), module id, host id, a constant (tokens in the emitted text: agreement for every value at once)"),
    ]


MANIFEST = {
    "text": "Partial claim. z3 shows no native type name is missing from or described differently by any back-end table (C widths measured); for each descriptor of the family and every id value, the four emitted texts read back to the same definitions (field names, order, element width/kind, lengths), ids and hashes as the parser's model; "
            "layout equality (C compiler vs generated Python class vs recorded size) is C11's symbolic obligation and is re-checked with gcc and ctypes on the replay path.",
    "note": "reference readers per language; descriptor family; C11 for symbolic layout",
    "technique": "z3 query over the type tables read from the source; CrossHair symbolic execution of handlers and back ends with ids as tokens; gcc/ctypes replay",
    "design_ref": "DESIGN.md 4.4",
}
