"""C07 - a departed client leaves no trace."""
import itertools
from engine.runner import Obligation
from engine.mgrworld import STUBS  # noqa: F401
from props.c03 import ENC, CTRLS

VALIDATORS = ["engine.validate_shadow", "engine.validate_standins"]
ASSUMPTIONS = [
    "a connection that dies stays dead: after its k-th successful sendall every later sendall raises ConnectionResetError (k = 0: header of the next frame fails, k = 1: its payload half fails); close() makes sendall raise OSError(EBADF)",
    "a failing module that itself listens to notices (FAILED_MESSAGE/CLIENT_CLOSED/ALL) may be discovered dead by a notice before the message reaches it: both orders accepted",
    "run()'s `except ConnectionError: disconnect_module(src)` is reproduced by the 3-line step() driver of the harness (the round harness of the thorough tier executes run() itself)",
]


def step_shards(tier):
    out = []
    for rv in (("short_h", "short_d1", "reset_d", "full") if tier == "quick" else ("short_h", "reset_h", "short_d", "short_d1", "reset_d", "full")):
        for ss in ((0, 2, 3) if tier == "quick" else (0, 1, 2, 3)):
            for c in (CTRLS if rv == "full" else ("data", "SUBSCRIBE", "CONNECT_V2")):
                if rv == "full" and c not in ("DISCONNECT", "CONNECT", "CONNECT_V2", "data") and tier == "quick":
                    continue
                for others in (["A", "N"], ["A", "L"]):
                    if tier == "quick" and others == ["A", "L"] and c != "DISCONNECT":
                        continue
                    for slog in ((0, 1) if ss >= 1 else (0,)):
                        if tier == "quick" and slog and c not in ("DISCONNECT", "data"):
                            continue
                        out.append({"ctrl": c, "sstate": ss, "slog": slog, "recv": rv, "others": others, "names": [1, 1, 0, 2]})
    return out


def fault_shards(tier):
    one = [(sk, wr, fl) for sk in (0, 1, 2) for wr in (0, 1) for fl in (0, 1, 2)]
    out = []
    for a, b in itertools.product(one, repeat=2):
        if a[2] == 0 and b[2] == 0:
            continue   # no failure: C01/C14
        if tier == "quick":
            # one failing recipient of each kind against a healthy monitor, plus the double-failure diagonal
            healthy_monitor = (b == (2, 1, 0) and a[0] and a[1])
            double = a[2] and b[2] and a[1] == 1 and b[1] == 1 and a[0] == 1 and b[0] == 2
            if not (healthy_monitor or double):
                continue
        out.append({"rec": [list(a), list(b)], "mclass": "gen"})
    if tier != "quick":
        for a in one:
            if a[2]:
                out.append({"rec": [list(a), [2, 1, 0]], "mclass": "33"})
    # the message in flight is one the manager originates itself (CLIENT_INFO): the removal nests a second manager message in it
    from pyrtma import core_defs as cd
    ci = str(cd.MT_CLIENT_INFO)
    pairs = [([2, 1, 1], [2, 1, 0]), ([1, 1, 1], [2, 1, 0]), ([1, 1, 2], [1, 1, 0]), ([2, 1, 0], [2, 1, 1]), ([2, 1, 2], [1, 1, 0])]
    if tier != "quick":
        pairs = [(list(a), list(b)) for a, b in itertools.product(one, repeat=2) if (a[2] or b[2]) and a[0] and b[0] and a[1] and b[1]]
    for a, b in pairs:
        out.append({"rec": [a, b], "mclass": ci, "origin": "mgr"})
    return out


def fault3_shards():
    # three recipients, two of them dying, a healthy monitor: long budget (path count of three nested deliveries)
    return [{"rec": [a, [1, 1, 1], [2, 1, 0]], "mclass": "gen"} for a in ([1, 1, 1], [1, 1, 2], [0, 1, 1])]


def obligations(tier):
    extra = []
    if tier != "quick":
        extra.append(Obligation("write_side_two_failures_among_three", "harness.mgr_faults", "c07", fault3_shards(), cond_timeout=2400, path_timeout=120,
                                encoded=ENC, bounds="3 recipients: two dying (header or payload half), one healthy monitor", symbolic="as write_side_failure_during_delivery"))
    return extra + [
        Obligation("read_side_and_disconnect_and_refusal", "harness.mgr_step", "c07", step_shards(tier), cond_timeout=200, path_timeout=40,
                   reach="c07_reach", reach_shards=[{"ctrl": "data", "sstate": 2, "slog": 0, "recv": "short_d", "others": ["A", "N"], "names": [1, 1, 0, 2]}],
                   encoded=ENC,
                   bounds="one step; sender in each protocol state (accepted, connected, subscribed, subscribed-to-all; logger or not); leaves by DISCONNECT, FIN/RST in the header or in the payload, or refusal at connect; monitor + bystander/logger present; id+name reuse attempted at once",
                   symbolic="all header fields, payload ints, module ids, subscribed type"),
        Obligation("write_side_failure_during_delivery", "harness.mgr_faults", "c07", fault_shards(tier), cond_timeout=400, path_timeout=60,
                   reach="c07_reach", reach_shards=[{"rec": [[1, 1, 1], [2, 1, 0]], "mclass": "gen"}],
                   encoded=ENC,
                   bounds="2 recipients (3 in part of the thorough tier); each healthy / dying at the header / dying at the payload half; up to 2 departures in one delivery; the message in flight a client frame or a manager-originated CLIENT_INFO",
                   symbolic="msg_type, dest_mod 0..200, ids 0..199, logger bits, FAILED_MESSAGE/CLIENT_CLOSED subscription bits"),
    ]


MANIFEST = {
    "text": "For every way of leaving covered by the shards (DISCONNECT, FIN or RST in header or payload, refusal, write-side failure at either half of an outgoing frame, alone or two at once, the message in flight a client frame or one the manager originates itself) and every field value, "
            "the real remove_module path leaves the module in no table, closes it, publishes exactly one CLIENT_CLOSED describing it to each able monitor, keeps Inv, lets its id and name be reused at once, and the surviving recipients get the message exactly once.",
    "note": "socket fault model as stated in assumptions; ctypes shadows validated per run",
    "design_ref": "DESIGN.md 4.7",
}
