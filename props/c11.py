"""C11 - accepted layouts are naturally aligned with only explicit padding."""
import itertools
from engine.runner import Obligation

VALIDATORS = ["engine.validate_layout"]
ENC = ["pyrtma.parser:Parser.check_alignment", "pyrtma.parser:Parser.validate_msg_def", "pyrtma.parser:Field.size",
       "pyrtma.parser:Field.alignment", "pyrtma.parser:TypeAlias.alignment", "pyrtma.parser:MDF.size", "pyrtma.parser:SDF.size"]
STUBS = ["Parser.get_ctype_size (ctypes.sizeof of a generated Structure) -> natural-C-layout reference model c_layout, validated on every run against the repository's own ctypes construction and against gcc sizeof/_Alignof/offsetof",
         "Parser.warning -> no-op"]
ASSUMPTIONS = ["a nested struct is summarised by its size (a multiple of its alignment, as check_alignment left it when it was defined) and alignment: that is all check_alignment reads",
               "natural alignment of a native type = its size (1, 2, 4, 8), as on every target the project supports"]


def field_space(n, kinds):
    one = [(k, w, a) for k in kinds for w in (1, 2, 4, 8) for a in (0, 1)]
    return itertools.product(one, repeat=n)


def shards(tier):
    out = []
    if tier == "quick":
        # all sequences of 2 fields over native widths x scalar/array, and 3-field sequences over natives (scalar first or array first)
        for fs in field_space(2, "n"):
            for ap in (1, 0):
                out.append({"fields": [list(f) for f in fs], "auto_pad": ap})
        for fs in itertools.product([("n", w, a) for w in (1, 2, 4, 8) for a in (0, 1)], repeat=3):
            if fs[0][2] == 1 and fs[1][2] == 0:   # array, scalar, anything
                out.append({"fields": [list(f) for f in fs], "auto_pad": 1})
        for k1, k2 in (("s", "n"), ("a", "s"), ("s", "s"), ("n", "a")):
            for w1, w2 in itertools.product((1, 2, 4, 8), repeat=2):
                out.append({"fields": [[k1, w1, 1], [k2, w2, 0], ["n", 1, 1]], "auto_pad": 1, "reuse": 1})
        # a field whose type is an alias of a struct (its alignment is the struct's, not the struct's size), padding on and off
        for w1, w2 in itertools.product((1, 2, 4, 8), repeat=2):
            for ap in (1, 0):
                out.append({"fields": [["n", w1, 0], ["as", w2, 0]], "auto_pad": ap})
                out.append({"fields": [["as", w2, 1], ["n", w1, 0]], "auto_pad": ap})
    else:
        for w1, w2 in itertools.product((1, 2, 4, 8), repeat=2):
            for ap in (1, 0):
                for a1, a2 in itertools.product((0, 1), repeat=2):
                    out.append({"fields": [["n", w1, a1], ["as", w2, a2]], "auto_pad": ap})
                    out.append({"fields": [["as", w2, a2], ["a", w1, a1]], "auto_pad": ap})
                    out.append({"fields": [["s", w1, a1], ["as", w2, a2], ["n", 1, 0]], "auto_pad": ap})
        for fs in field_space(2, "nas"):
            for ap in (1, 0):
                out.append({"fields": [list(f) for f in fs], "auto_pad": ap, "reuse": 1})
        for fs in field_space(3, "n"):
            for ap in (1, 0):
                out.append({"fields": [list(f) for f in fs], "auto_pad": ap})
        for fs in itertools.product([(k, w, 1) for k in "ns" for w in (1, 2, 4, 8)], repeat=3):
            out.append({"fields": [list(f) for f in fs], "auto_pad": 1, "reuse": 1})
        for fs in itertools.product([("n", w, a) for w in (1, 4, 8) for a in (0, 1)], repeat=4):
            out.append({"fields": [list(f) for f in fs], "auto_pad": 1})
    return out


def obligations(tier):
    return [Obligation("layout_natural_padding_explicit", "harness.c11_align", "align", shards(tier), cond_timeout=300, path_timeout=60,
                       reach="align_reach", reach_shards=[{"fields": [["n", 1, 1], ["n", 8, 0], ["n", 2, 1]], "auto_pad": 1}], encoded=ENC,
                       bounds="field sequences of length 2-3 (quick) / 2-4 (thorough) over widths 1,2,4,8 x {native, alias, nested struct} x {scalar, array}; auto_pad on/off; field-list reuse (stale offsets)",
                       symbolic="every array length 1..70000 (so sizes cross the 65535 limit), every nested struct's size (alignment x m, m 1..9000)")]


MANIFEST = {
    "text": "For every array length (1..70000) and nested-struct size in every field sequence of the shard space, the real check_alignment/validate_msg_def leave a field list in which every field starts at a multiple of its alignment, "
            "the size is a multiple of the strictest alignment and equals the sum of the fields (no hidden C padding), only char paddings were inserted and no user field moved; without auto_pad a definition is accepted iff it needs no padding; > 65535 bytes is rejected. "
            "CrossHair exhausts each shard with z3 deciding the modular arithmetic.",
    "note": "ctypes size check replaced by c_layout (validated vs ctypes and gcc every run)",
    "design_ref": "DESIGN.md 4.11",
}
