"""C10 - serialisation round trips are the identity (partial claim: dictionary and JSON-hook layers, version gate)."""
import ctypes
from engine.runner import Obligation

VALIDATORS = ["engine.validate_shadow", "engine.validate_fp_lemma"]
H = "harness.c10_serial"
ENC = ["pyrtma.message_base:_to_dict", "pyrtma.message_base:_from_dict", "pyrtma.message_base:_expand_carray",
       "pyrtma.message_base:MessageBase.to_dict", "pyrtma.message_base:MessageBase.from_dict", "pyrtma.message_base:RTMAJSONEncoder.default",
       "pyrtma.message:Message.from_json", "pyrtma.validators:String.__get__", "pyrtma.validators:ByteArray.__getitem__"]
STUBS = ["message classes -> ctypes-free shadows (engine/shadow.py, validated against ctypes every run)",
         "json.dumps/json.loads -> structural copy that calls RTMAJSONEncoder.default where the json module would (the JSON text layer - float repr, scanner, escaping - is CPython's and outside the claim)",
         "pyrtma.message.json.loads / get_header_cls / _msg_defs -> harness document, shadow header, association list (version gate obligation)"]
ASSUMPTIONS = [
    "bytes(m) is modelled by the shadow store; from_buffer_copy(bytes(m)) and Message.copy storage independence are properties of ctypes and are not claimed",
    "float32 rounding is idempotent (lemma discharged by engine/validate_fp_lemma.py with z3 on every run)",
    "string fields start from a zeroed char array: bytes behind a terminating NUL are known finding C10-char-tail",
    "values not representable in the field (refused by validation) are C09's subject",
]
INTS = ["int8", "int16", "int32", "int64", "uint8", "uint16", "uint32", "uint64", "byte"]


def class_names(tier):
    import sys
    sys.path.insert(0, "/repo/tests")
    from pyrtma import core_defs as cd
    from pyrtma.message_base import MessageBase
    import importlib
    td = importlib.import_module("test_msg_defs.test_defs")
    out = ["MessageHeader"]
    for mod in (cd, td):
        k = 0
        for name, v in vars(mod).items():
            if isinstance(v, type) and issubclass(v, MessageBase) and v.__module__ == mod.__name__ and name not in out:
                size = ctypes.sizeof(v)
                if mod is cd:
                    if tier == "quick" and size > 3000:
                        continue
                    out.append(name)
                else:
                    k += 1
                    if size > 3000:
                        continue
                    if tier == "quick" and not (k % 12 == 0 or name in ("MDF_VEML7700_DATA", "MDF_CST_LAMBDA", "RH_FINGER_DATA", "MDF_VALIDATOR_A", "VALIDATOR_STRUCT")):
                        continue
                    out.append(name)
    return out


def obligations(tier):
    pos = (1,) if tier == "quick" else (0, 1, 3)
    return [
        Obligation("dict_and_json_hook_roundtrip_every_int_kind", H, "h_allkinds", [{"group": "ints", "only": k, "pos": p} for k in INTS for p in pos],
                   cond_timeout=400, path_timeout=60, reach="h_allkinds_reach", reach_shards=[{"group": "ints", "only": "int16", "pos": 1}], encoded=ENC,
                   bounds="VALIDATOR_STRUCT (every scalar and array kind); one integer kind per shard: its scalar and one element of its array", symbolic="the integer over the whole range of the field"),
        Obligation("dict_and_json_hook_roundtrip_double_and_strings", H, "h_allkinds",
                   [{"group": "floats", "only": "double", "pos": p} for p in pos] + [{"group": "strs", "pos": p} for p in pos],
                   cond_timeout=600, path_timeout=120, flags=("ieee",), reach="h_allkinds_reach", reach_shards=[{"group": "strs", "pos": 1}], encoded=ENC,
                   bounds="double scalar + one array element; char[4] string (<= 2 characters) and char", symbolic="an IEEE double (all bit patterns incl. NaN, -0.0, inf handled), the string, the char"),
        Obligation("roundtrip_every_class", H, "h_perclass", [{"cls": c, "seed": 1} for c in class_names(tier)], cond_timeout=600, path_timeout=120,
                   flags=("ieee",), reach="h_perclass_reach", reach_shards=[{"cls": "MDF_CONNECT_V2", "seed": 1}], encoded=ENC,
                   bounds="%s; per class its first integer, float and string scalar and the last element of its first integer array symbolic, all other fields from the repository's from_random()" % ("every class of core_defs up to 3000 bytes and a twelfth of tests' test_defs" if tier == "quick" else "every class of core_defs and test_defs up to 3000 bytes"),
                   symbolic="an int over the field's range, an IEEE double (float32 fields: rounded), a string <= 3 ASCII characters without NUL, an array element"),
        Obligation("from_json_version_gate", H, "h_gate", [{}], cond_timeout=200, flags=("ieee",), reach="h_gate_reach", encoded=ENC,
                   bounds="header-plus-data JSON for a 4-byte message", symbolic="header.version (uint32), msg_type (int32), a data field"),
        Obligation("from_json_version_gate_is_per_document", H, "h_gate2", [{}], cond_timeout=300, flags=("ieee",), reach="h_gate2_reach", encoded=ENC,
                   bounds="two header-plus-data documents decoded one after the other in one process (the first of the 4-byte type: in sync, legacy version 0 or refused)",
                   symbolic="both header.version values (uint32), the second msg_type (int32), a data field"),
    ]


MANIFEST = {
    "text": "Partial claim. For every field value in range (ints over the whole range, doubles over all bit patterns, float32 via the z3 rounding model, short strings) the real _to_dict/_from_dict and the RTMAJSONEncoder hook reproduce the message store exactly, "
            "for VALIDATOR_STRUCT (every field kind) and for each class of core_defs/test_defs with some fields symbolic; Message.from_json refuses a non-zero version that differs from the local hash for every uint32, also for the second document of a type decoded in one process. "
            "Not claimed: the JSON text layer itself, ctypes copy independence. Known finding: bytes behind a string's terminating NUL are not preserved.",
    "note": "ctypes shadows; json text layer replaced by a structural copy; idempotent-rounding lemma proved per run",
    "design_ref": "DESIGN.md 4.10",
}
