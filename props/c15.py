"""C15 - accepted definitions always yield outputs that load in their language (partial claim)."""
from engine.runner import Obligation
from props.compilers_common import DESCRIPTORS, GOOD, KNOWN_BAD, ALL_GOOD
from harness_meta import CMP_STUBS as STUBS  # noqa: F401

VALIDATORS = []
ENC = ["pyrtma.parser:Parser.handle_alias", "pyrtma.parser:Parser.handle_struct", "pyrtma.parser:Parser.handle_message_def",
       "pyrtma.parser:Parser.add_fields", "pyrtma.parser:Parser.check_alignment", "pyrtma.parser:Parser.get_ctype_cls",
       "pyrtma.compilers.python:PyDefCompiler.generate", "pyrtma.compilers.c99:CDefCompiler.generate",
       "pyrtma.compilers.javascript:JSDefCompiler.generate", "pyrtma.compilers.matlab:MatlabDefCompiler.generate",
       "pyrtma.compilers.javascript:JSDefCompiler.generate_obj", "pyrtma.compilers.javascript:JSDefCompiler.generate_type_alias",
       "pyrtma.compilers.python:PyDefCompiler.get_descriptor"]
ASSUMPTIONS = [
    "partial claim: a fixed family of definition descriptors (every documented construct at least once, alone and with the referenced type in an imported file); text emission concretises, so within a descriptor only the numeric ids/constants are solver-quantified (they travel as tokens)",
    "load order is judged on the emitted text by a def-before-use oracle per language; every alarm is re-judged by the real toolchain (python import, gcc, node; MATLAB has no interpreter here: textual rule only)",
    "that passing the textual oracle implies the real toolchain loads the file is a model assumption, checked by the real toolchains on the replay path and by the C04 layout replay",
    "YAML surface syntax, constant expressions and identifiers outside [A-Za-z][A-Za-z0-9_]* are outside",
]


def obligations(tier):
    shards = [dict(ALL_GOOD[k], name=k, wellformed=1) for k in ALL_GOOD] + [dict(DESCRIPTORS[k], name=k, wellformed=1) for k in KNOWN_BAD]
    # the import layer of "compiles without an internal error": the real parse()/parse_file() over files spread over
    # directories of different depth, both import-list orders (shared with C12's closure harness; here the point is that
    # nothing but a ParserError ever escapes and the working directory is restored)
    imp = []
    for e in ([1, 1, 1, 1, 1, 0], [1, 1, 1, 1, 1, 1], [1, 1, 0, 1, 1, 0], [1, 1, 1, 0, 1, 1]):
        for rev in (0, 1):
            imp.append({"edges": e, "place": [1, 3], "kinds": ["struct", "msg"], "layout": "tree", "rev": rev, "twice": rev})
    if tier != "quick":
        import itertools
        imp = [{"edges": list(e), "place": pl, "kinds": ["struct", "msg"], "layout": "tree", "rev": rev, "twice": tw}
               for e in itertools.product((0, 1), repeat=6) if sum(e) >= 3 for pl in ([1, 3], [0, 2]) for rev in (0, 1) for tw in (0, 1)]
    return [Obligation("imports_resolve_from_every_directory_and_order", "harness.c12_closure", "clo", imp, cond_timeout=400, path_timeout=60,
                       reach="clo_reach", reach_shards=[imp[0]],
                       encoded=["pyrtma.parser:Parser.parse", "pyrtma.parser:Parser.parse_file", "pyrtma.parser:Parser.parse_text", "pyrtma.parser:Parser.handle_import"],
                       bounds="import graphs over a root and 3 files in directories of different depth, imports spelled with .., both orders of every import list, a repeated import",
                       symbolic="ids and name indices of a struct and a message placed in two of the files"),
            Obligation("outputs_define_before_use_and_no_internal_error", "harness.compilers", "c15", shards, cond_timeout=400, path_timeout=120,
                       reach="c15_reach", reach_shards=[dict(DESCRIPTORS["struct_array_msg"], wellformed=1)], encoded=ENC,
                       bounds="%d definition descriptors (13 hand-written + a generated family: every kind of field type x scalar/array x struct/message container x type defined locally / in an imported file): natives (all 27 names), aliases of natives / aliases / structs, nested structs, struct arrays, message in message, signals, automatic padding, each also with the referenced type coming from an imported file" % len(shards),
                       symbolic="the base message id (ids are base, base+1, ...; 0..9998), module id, host id, a constant")]


MANIFEST = {
    "text": "Partial claim. The real parse()/parse_file() resolve relative imports from every directory depth and list order without an internal error (working directory restored). For each descriptor of the family and every id/constant value, the real parser handlers and the four real generate() methods raise nothing, and each emitted text only uses names it has already defined (JavaScript: everything called is a function, array elements are built per slot). "
            "Two emission-order defects are recorded as known findings (alias of a struct and struct containing a message, both with the referenced type defined in an imported file); alarms are replayed with python import, gcc and node.",
    "note": "descriptor family, textual def-before-use oracle, real toolchains on replay",
    "technique": "CrossHair symbolic execution of the real parser handlers and back ends over a bounded descriptor family (ids/constants symbolic as tokens) with a def-before-use oracle; real-toolchain replay",
    "design_ref": "DESIGN.md 4.15",
}
