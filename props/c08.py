"""C08 - client read path is faithful, filtered and self-resynchronising."""
from engine.runner import Obligation
from engine import cliworld

VALIDATORS = ["engine.validate_shadow", "engine.validate_standins"]
STUBS = list(cliworld.STUBS) + [
    "pyrtma.message._msg_defs -> association list of three real definitions of different sizes (MODULE_READY 4 bytes, CONNECT_V2 44 bytes, ACKNOWLEDGE 0 bytes)",
    "Client._sock -> scripted stream: frames at symbolic sizes, read position tracked, MSG_WAITALL semantics (short read only when the peer closed), optional FIN/RST at a symbolic offset; a header read off a frame boundary raises Desync",
]
ENC = ["pyrtma.client:Client.read_message", "pyrtma.client:Client._read_message", "pyrtma.client:Client._discard",
       "pyrtma.message:get_msg_cls", "pyrtma.client:requires_connection"]
ASSUMPTIONS = [
    "frames reaching a client were written by the manager: declared payload size 0..65535",
    "MSG_WAITALL: a read returns fewer bytes than asked only when the peer closed the connection; a read WITHOUT that flag returns as soon as some bytes are there (the peer's bytes arrive one at a time in the model), so code that relies on a full read without asking for it is seen",
    "when the connection ends inside the payload of an undecodable frame the decode error may be reported for that frame; the next call must report ConnectionLost",
    "payload bytes are opaque: 'byte-identical' is checked as 'read exactly num_data_bytes bytes starting right after the header into the returned data object, header fields as sent'",
]


def shards(tier):
    out = []
    for nf in ((1, 2) if tier == "quick" else (1, 2, 3)):
        for mode in ("none", "fin", "rst"):
            for state in ("all", "sub", "none"):
                for sync in (0, 1):
                    for to in ("none", "zero"):
                        for ack in (0, 1):
                            if tier == "quick":
                                if nf == 1 and (mode != "none" and state != "all"):
                                    continue
                                if ack and not (state == "none" and to == "zero" and mode == "none"):
                                    continue
                                if to == "zero" and state == "all":
                                    continue
                                if sync and state == "none":
                                    continue
                            elif nf == 3 and (ack or sync or (mode != "none" and to == "zero")):
                                continue   # three frames: without the version check (its branching x3 does not finish in the budget)
                            out.append({"nframes": nf, "mode": mode, "state": state, "sync": sync, "timeout": to, "ack": ack})
    # a positive timeout, with a clock that does / does not use it up while queued frames of other types are being skipped
    for tick in (0.001, 1.0):
        for state in ("sub", "none"):
            for mode in (("none", "fin") if tier == "quick" else ("none", "fin", "rst")):
                for ack in ((0,) if tier == "quick" else (0, 1)):
                    out.append({"nframes": 2 if tier == "quick" else 3, "mode": mode, "state": state, "sync": 0, "timeout": "pos", "tick": tick, "ack": ack})
    for s1, s2 in (("all", "none"), ("all", "sub"), ("sub", "none"), ("none", "sub"), ("sub", "all")):
        for mode in (("none",) if tier == "quick" else ("none", "fin", "rst")):
            out.append({"nframes": 2 if tier == "quick" else 3, "mode": mode, "state": s1, "state2": s2, "sync": 0, "timeout": "none", "ack": 0})
            out.append({"nframes": 2, "mode": mode, "state": s1, "state2": s2, "sync": 1, "timeout": "zero", "ack": 0})
    return out


def obligations(tier):
    return [Obligation("read_path_faithful_filtered_resync", "harness.c08_read", "read", shards(tier), cond_timeout=600, path_timeout=60,
                       reach="read_reach", reach_shards=[{"nframes": 2, "mode": "none", "state": "all", "sync": 1, "timeout": "none", "ack": 0}],
                       encoded=ENC,
                       bounds="streams of <= 2 (quick) / 3 (thorough) frames; client subscribed to all / to one type / to nothing, optionally changing between two reads; ack and sync_check on/off; blocking, non-blocking and timed reads (timeout used up or not while skipping); peer FIN or RST at any byte offset",
                       symbolic="per frame: msg_type int32 (defined, defined with another size, undefined), declared size 0..65535, version uint32; the byte offset of FIN/RST")]


MANIFEST = {
    "text": "For every stream of up to 3 frames with arbitrary type, declared size and version, every subscription state and read mode, and a peer FIN/RST at every byte offset, the real read_message returns exactly the subscribed frames "
            "with the header as sent and the payload read from right behind its header, raises the documented error for undecodable frames after consuming exactly that frame (next call starts on a frame boundary), "
            "and reports a lost connection as ConnectionLost leaving connected False. Decided per shard by CrossHair/z3.",
    "note": "socket is a scripted stream model (stated); ctypes shadows; message definition table is an association list",
    "design_ref": "DESIGN.md 4.8",
}
