"""C19 - control frames are acknowledged exactly once, in order, to their sender."""
from engine.runner import Obligation
from engine.mgrworld import STUBS  # noqa: F401
from props.c03 import ENC, CTRLS

VALIDATORS = ["engine.validate_shadow", "engine.validate_standins"]
ASSUMPTIONS = [
    "frames of one module are processed one at a time to completion (single-threaded manager), so 'in order' follows from exactly-one ACK emitted inside the step of each control frame; the two-frame obligation executes two consecutive steps to tie this to the code",
    "'also copied to every logger module' is read as including a sender that is itself a logger (it then sees its own ACK plus the logger copy)",
    "a client-published frame whose msg_type is ACKNOWLEDGE is ordinary data and is excluded (indistinguishable on the wire)",
]


def shards(tier):
    out = []
    for c in CTRLS:
        for ss in (0, 1, 2, 3):
            for others in (["L", "A"], ["L", "L"], ["N", "A"]):
                if tier == "quick" and others != ["L", "A"] and c not in ("SUBSCRIBE", "CONNECT", "RESUME_SUBSCRIPTION"):
                    continue
                out.append({"ctrl": c, "sstate": ss, "recv": "full", "others": others, "names": [1, 1, 1, 2]})
                if ss >= 1 and (tier != "quick" or c in ("SUBSCRIBE", "UNSUBSCRIBE", "data")):
                    out.append({"ctrl": c, "sstate": ss, "slog": 1, "recv": "full", "others": others, "names": [1, 1, 1, 2]})
            if c in ("CONNECT", "CONNECT_V2"):
                out.append({"ctrl": c, "sstate": 0, "recv": "full", "others": ["L", "A"], "names": [0, 1, 1, 1]})
            for ss in (1, 3):
                # the sender's own connection not write-ready in this round: the acknowledgement is still owed
                out.append({"ctrl": c, "sstate": ss, "recv": "full", "others": ["L", "A"], "names": [1, 1, 1, 2], "swr": 0})
            for rv in ("short_h", "reset_d"):
                out.append({"ctrl": c, "sstate": 1, "recv": rv, "others": ["L", "A"], "names": [1, 1, 1, 2]})
    return out


def obligations(tier):
    return [Obligation("ack_exactly_once_to_sender_and_loggers", "harness.mgr_step", "c19", shards(tier), cond_timeout=200, path_timeout=40,
                       reach="c19_reach", reach_shards=[{"ctrl": "SUBSCRIBE", "sstate": 1, "recv": "full", "others": ["L", "A"], "names": [1, 1, 1, 2]}],
                       encoded=ENC,
                       bounds="one control or data frame from a module in each protocol state (accepted, connected, subscribed, subscribed-to-all, logger or not), 2 other modules (0-2 loggers, an ALL subscriber, a bystander)",
                       symbolic="all header fields, control payload integers (incl. the subscription type over all of int32, so repeats and no-ops), module ids, request id/flags"),
            # connection churn: whatever the manager keeps per connection must not outlive the connection
            Obligation("acknowledgements_after_descriptor_reuse", "harness.mgr_churn", "churn", [{"leave": "disc"}, {"leave": "fin"}], cond_timeout=200, path_timeout=40,
                       reach="churn_reach", encoded=ENC,
                       bounds="a history of 6 steps from the initial state: a module connects and subscribes, leaves (DISCONNECT or orderly close), another module connects and subscribes on a connection with the same descriptor number; a logger listens throughout",
                       symbolic="both module ids 1..99 (may coincide), the subscribed type"),
            # the client side of the handshake: the real Client._wait_for_acknowledgement picks the FIRST acknowledgement off the stream
            Obligation("client_waits_for_the_first_acknowledgement", "harness.c08_read", "h_ack_wait",
                       [{"nframes": nf, "state": st, "timeout": to, "tick": tk} for nf in ((2, 3) if tier == "quick" else (1, 2, 3)) for st in ("none", "sub", "all")
                        for to, tk in (("block", 0.001), ("timed", 0.001), ("timed", 1.0))],
                       cond_timeout=200, path_timeout=40, reach="h_ack_wait_reach", reach_shards=[{"nframes": 3, "state": "none", "timeout": "block", "tick": 0.001}],
                       encoded=["pyrtma.client:Client._wait_for_acknowledgement", "pyrtma.client:Client.read_message", "pyrtma.client:Client._read_message"],
                       bounds="streams of <= 3 decodable frames (ACKNOWLEDGE / MODULE_READY / CONNECT_V2 in any order), client subscribed to nothing / one type / all, blocking and timed waits (clock that does / does not use the timeout up)",
                       symbolic="the kind of each frame")]


MANIFEST = {
    "text": "For every control frame kind and every data type, every field value, every protocol state of the sender and 0-2 loggers, the real process_message appends exactly one ACKNOWLEDGE "
            "(src 0, dest = sender's id) to the sender's own connection and one copy per logger for accepted handshakes and the four subscription controls, and none otherwise; bystanders never get one. "
            "On the client side the real _wait_for_acknowledgement returns the first ACKNOWLEDGE of any stream of <= 3 decodable frames, consuming exactly the frames up to it, whatever the client subscribes to. "
            "CrossHair exhausts each shard; z3 decides every branch.",
    "note": "socket recorders, ctypes shadows (validated), Inv pre-state; order argument in assumptions",
    "design_ref": "DESIGN.md 4.19",
}
