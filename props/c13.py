"""C13 - the version hash identifies the definition text, everywhere the same."""
from engine.runner import Obligation

VALIDATORS = []
H = "harness.c13_hash"
ENC = ["pyrtma.parser:Parser.handle_message_def", "pyrtma.parser:Parser.handle_signal", "pyrtma.parser:Parser.handle_struct",
       "pyrtma.compilers.c99:CDefCompiler.generate_hash_id", "pyrtma.compilers.javascript:JSDefCompiler.generate_hash_id",
       "pyrtma.compilers.matlab:MatlabDefCompiler.generate_hash_id", "pyrtma.compilers.python:PyDefCompiler.generate_msg_def",
       "pyrtma.compilers.python:PyDefCompiler.generate_struct", "pyrtma.client:Client.send_message", "pyrtma.client:Client.send_signal"]
STUBS = ["pyrtma.parser.sha256 -> recorder of the text that is hashed (hash equality = equality of that text; collision resistance of SHA-256 assumed)",
         "definition elements -> marker strings while the REAL handlers run, to extract the hashed text as a template (literal pieces + slots); validated per run against concrete renderings through the real handlers",
         "pyrtma.compilers.python.dedent -> identity in the printer obligation (stdlib whitespace stripping)",
         "Client._sendall -> recorder"]
ASSUMPTIONS = [
    "collision resistance of SHA-256",
    "grammar of definition elements in the z3 queries: names [A-Za-z][A-Za-z0-9_]*, field names identifiers, ids decimal renderings of non-negative ints, type texts over [A-Za-z0-9_ []*+-()/] without leading/trailing blank and without newline (what add_fields can accept)",
    "string lengths bounded as stated per query; field-list reuse inside struct_defs (its text is the reuse name joined character by character) is outside the injectivity claim",
    "comments and blank lines never reach the handlers (they receive parsed dictionaries): outside, as YAML surface syntax",
]
SHAPES_Q = [("signal", 0), ("msg", 1), ("msg", 2), ("msg_reuse", 0), ("struct", 1), ("struct", 2)]


def inject_shards(tier):
    out = []
    shapes = SHAPES_Q if tier == "quick" else SHAPES_Q + [("msg", 3), ("struct", 3)]
    L = 3 if tier == "quick" else 4
    for i, (s1, k1) in enumerate(shapes):
        for (s2, k2) in shapes[i:]:
            k = max(k1, k2)
            maxlen = L if k <= 2 else 2
            sh = {"s1": s1, "k1": k1, "s2": s2, "k2": k2, "maxlen": maxlen, "timeout": 100 if tier == "quick" else 900}
            out.append(sh)
    # long field names: the word 'fields' itself fits
    out.append({"s1": "msg", "k1": 1, "s2": "msg_reuse", "k2": 0, "maxlen": 3, "fname_len": 6, "timeout": 100})
    out.append({"s1": "msg", "k1": 1, "s2": "msg", "k2": 1, "maxlen": 6 if tier != "quick" else 5, "timeout": 300})
    out.append({"s1": "signal", "k1": 0, "s2": "msg_reuse", "k2": 0, "maxlen": 6, "timeout": 100})
    return out


def obligations(tier):
    if tier == "quick":
        pys = [{"backend": "py_msg", "window": 6, "wlen": 2}, {"backend": "py_msg", "window": 7, "wlen": 2}, {"backend": "py_struct", "window": 0, "wlen": 2}]
    else:
        pys = [{"backend": b, "window": w} for b in ("py_msg", "py_struct") for w in (0, 2, 4, 6, 7)]
    return [
        Obligation("hashed_text_depends_only_on_the_definition", H, "inject", [{"what": "templates", "seed": 1}], kind="script", script_args=["inject"],
                   cond_timeout=120, encoded=ENC,
                   bounds="the text the real handlers hash, extracted with marker elements under 4 different parser contexts (file location, root path, options, unrelated registry content); 144 concrete renderings compared",
                   symbolic="(structural obligation: the template's slots are exactly name, id and the ordered field name/type pairs)"),
        Obligation("canonical_text_injective", H, "inject", inject_shards(tier), kind="script", script_args=["inject"], cond_timeout=1000, encoded=ENC,
                   bounds="pairs of definition shapes among signal, message with 1-2 (3 in thorough) fields, message by field-list reuse, struct with 1-2 (3) fields; strings <= %d characters (<= 6 for the field-name/one-field queries)" % (3 if tier == "quick" else 4),
                   symbolic="every definition element as a z3 string constrained by its grammar; query: definitions differ AND hashed texts equal -> unsat"),
        Obligation("accepted_type_texts_hash_apart", H, "inject", [{"what": "pool", "nsuffix": 5}], kind="script", script_args=["inject"], cond_timeout=300, encoded=ENC,
                   bounds="one-field message and struct whose field type text ranges over every native type name x {scalar, [2], [4], [ 4 ], [N]} (135 accepted texts, all pairs); the texts are produced by the real handlers on this run",
                   symbolic="the two pool indices i < j (z3 integers over an uninterpreted-function table of the 135 hashed texts)"),
        Obligation("back_ends_print_first_32_bits", H, "h_printers", [{"backend": b} for b in ("c", "js", "matlab")] + pys, cond_timeout=400, path_timeout=120,
                   flags=("nofmt",), reach="h_printers_reach", reach_shards=[{"backend": "c"}], encoded=ENC,
                   bounds="hash string of 10 hex digits; C/JS/MATLAB fully symbolic; Python printer with a 3-character symbolic window sliding over the string (.upper() of a fully symbolic string does not finish)",
                   symbolic="the hex digits of the hash"),
        Obligation("senders_stamp_the_hash", H, "h_stamp", [{}], cond_timeout=120, flags=("nofmt",), reach="h_stamp_reach", encoded=ENC,
                   bounds="two consecutive sends of one client, each a message or a bare signal (headers snapshotted at send time)", symbolic="type_hash (uint32), signal type (int32), message or signal"),
    ]


MANIFEST = {
    "text": "The text the real handlers feed to SHA-256 is extracted from the running code as a template whose only slots are the definition's name, id and ordered field name/type pairs (identical under different file locations, options and registry contents); "
            "z3 (string theory) shows for every pair of definition shapes within the bounds that two different definitions never produce the same text (one known collision is recorded: field-list reuse vs a field literally named 'fields'); "
            "CrossHair shows each back end prints the first 8 hex digits of that value and senders put it into header.version.",
    "note": "SHA-256 as identity on its input; bounded string lengths; YAML surface syntax outside",
    "technique": "direct z3 string-theory queries over templates extracted from the real handlers, plus CrossHair symbolic execution of the printers and send_message",
    "design_ref": "DESIGN.md 4.13",
}
