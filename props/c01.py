"""C01 - pub/sub routing is exact."""
import itertools
from engine.runner import Obligation
from engine import mgrworld  # noqa: F401  (STUBS text)

VALIDATORS = ["engine.validate_shadow", "engine.validate_standins"]
ENC = ["pyrtma.manager:MessageManager.forward_message", "pyrtma.manager:MessageManager.process_message",
       "pyrtma.manager:Module.send_message", "pyrtma.manager:MessageManager.send_failed_message",
       "pyrtma.manager:MessageManager.send_message", "pyrtma.manager:Module.sub_all"]
ASSUMPTIONS = [
    "representation invariant Inv (I1-I4, DESIGN.md section 3) holds in the pre-state; it is re-established by every step (asserted here, and by C02/C06/C07 for the steps that change tables)",
    "no send faults in this property (faults: C14/C03/C07)",
    "payload bytes are opaque to the manager: payload modelled as an object compared by identity and length",
]
from engine.mgrworld import STUBS  # noqa: E402


def rec_space(n):
    one = [(lg, sk, wr) for lg in (0, 1) for sk in (0, 1, 2) for wr in (0, 1)]
    return [list(map(list, c)) for c in itertools.product(one, repeat=n)]


def obligations(tier):
    obs = []
    sym = "msg_type int32 minus the ALL sentinel; dest/src mod+host ids int16; num_data_bytes 0..65535; recipient mod ids 0..199"
    n = 2 if tier == "quick" else 3
    shards = []
    for rec in rec_space(n):
        if all(r[1] == 0 for r in rec):
            continue
        shards.append({"rec": rec, "via": "fwd"})
    obs.append(Obligation("forward_exact_%drecipients" % n, "harness.c01_fwd", "fwd", shards, cond_timeout=120, path_timeout=30,
                          reach="fwd_reach", reach_shards=[{"rec": [[0, 1, 1]] * n, "via": "fwd"}], encoded=ENC,
                          bounds="%d recipients + sender; per recipient logger/subscription kind(none,type,ALL)/writable exhaustively sharded" % n,
                          symbolic=sym))
    # process_message default branch, timecode layout, publisher subscribed to its own type: 2 recipients
    extra = []
    for rec in rec_space(2 if tier == "quick" else 2):
        if all(r[1] == 0 for r in rec):
            continue
        extra.append({"rec": rec, "via": "proc"})
        extra.append({"rec": rec, "via": "proc", "timecode": 1})
        extra.append({"rec": rec, "via": "fwd", "self_pub": 1})
        if tier != "quick":
            extra.append({"rec": rec, "via": "fwd", "timecode": 1})
            extra.append({"rec": rec, "via": "proc", "self_pub": 1})
    obs.append(Obligation("process_default_branch_timecode_selfpub", "harness.c01_fwd", "fwd", extra, cond_timeout=120, path_timeout=30,
                          reach="fwd_reach", reach_shards=[{"rec": [[0, 1, 1], [0, 2, 1]], "via": "proc", "timecode": 1}], encoded=ENC,
                          bounds="2 recipients; via process_message (every non-control msg_type), timecode header layout, publisher among the recipients",
                          symbolic=sym))
    # the run() loop itself: two connections ready in the same select round, both service orders
    kinds = ["sub", "unsub", "suball", "data", "disc"] if tier == "quick" else ["sub", "unsub", "pause", "resume", "suball", "data", "disc"]
    rs = []
    for f1 in kinds:
        for f2 in kinds:
            if "data" not in (f1, f2):
                continue
            for s1 in (0, 1, 2):
                for s2 in (0, 1, 2):
                    for rev in (0, 1):
                        rs.append({"f1": f1, "f2": f2, "s1": s1, "s2": s2, "rev": rev})
                        if tier != "quick" or (f1 == "data" and s2 == 1 and rev == 0):
                            rs.append({"f1": f1, "f2": f2, "s1": s1, "s2": s2, "rev": rev, "f2dead": 1})
    obs.append(Obligation("select_round_both_service_orders", "harness.mgr_round", "rnd", rs, cond_timeout=120, path_timeout=30,
                          reach="rnd_reach", reach_shards=[{"f1": "sub", "f2": "data", "s1": 0, "s2": 0, "rev": 0}],
                          encoded=ENC + ["pyrtma.manager:MessageManager.run", "pyrtma.manager:MessageManager.read_message"],
                          bounds="one round of the real run() loop with two client connections ready at once (each sends one frame: subscribe/unsubscribe/pause/resume/subscribe-all/data/disconnect), both service orders, each client previously unsubscribed/subscribed/subscribed-to-all, an old subscriber present; optionally the second client dead on write",
                          symbolic="the message type (any int32 outside the manager's own types), payload size"))
    # bounded histories from the initial state: a publish after a subscription change after a publish (state kept outside the
    # manager's known tables - a cached recipient list, say - is invisible to one step from a constructed state)
    ctl0 = ["s0T", "u0T", "z0T", "r0T", "s0U", "u0U"]
    ctl1 = ["s1A", "u1A", "z1A", "r1A"]
    if tier == "quick":
        hs = [["pT", "s1A", "pT"], ["s1A", "pT", "u1A", "pT"], ["s1A", "pU", "z1A", "pU", "r1A", "pU"], ["pT", "s0T", "pT", "pU"],
              ["s0T", "pT", "u0T", "pT"], ["s0T", "pT", "z0T", "pT", "r0T", "pT"], ["s0T", "s0U", "pT", "u0U", "pT", "pU"],
              ["pT", "s0T", "s1A", "pT", "u1A", "pT", "u0T", "pT"], ["s0T", "pT", "s1A", "u0T", "pT", "u1A", "pT"],
              ["pT", "pU", "s1A", "pT", "pU", "z1A", "pT", "pU"], ["r0T", "pT", "z0T", "pT"], ["r1A", "pT", "z1A", "pT"]]
    else:
        alpha = ["pT", "pU"] + ctl0 + ctl1
        hs = [list(h) for h in itertools.product(alpha, repeat=3) if any(x[0] == "p" for x in h[1:])]
        hs += [["pT"] + list(h) + ["pT", "pU"] for h in itertools.product(ctl0 + ctl1, repeat=2)]
        hs += [[a, "pT", b, "pT", c, "pT"] for a in ("s0T", "s1A") for b in ctl0 + ctl1 for c in ctl0 + ctl1]
    obs.append(Obligation("routing_follows_subscription_history", "harness.mgr_hist", "hist", [{"steps": h} for h in hs], cond_timeout=200, path_timeout=60,
                          reach="hist_reach", reach_shards=[{"steps": ["s1A", "pT", "u1A", "pT"]}], encoded=ENC + [
                              "pyrtma.manager:MessageManager.add_subscription", "pyrtma.manager:MessageManager.remove_subscription",
                              "pyrtma.manager:MessageManager.pause_subscription", "pyrtma.manager:MessageManager.resume_subscription"],
                          bounds="histories of %s steps from the manager's initial state over {publish T, publish U, SUBSCRIBE/UNSUBSCRIBE/PAUSE/RESUME of T or U by one module, of ALL by another}" % ("3-8 (12 selected)" if tier == "quick" else "3-6 (all of length 3 that end in traffic, all two-change histories between publishes)"),
                          symbolic="both message types (int32, may coincide), payload size"))
    # the sending side: what Client.send_message / send_signal put on the wire
    obs.append(Obligation("client_frames_carry_what_the_caller_passed", "harness.c01_client", "frame", [{}], cond_timeout=120, path_timeout=30,
                          reach="frame_reach", encoded=["pyrtma.client:Client.send_message", "pyrtma.client:Client.send_signal"],
                          bounds="one send_message (44-byte payload) or send_signal from a connected client",
                          symbolic="destination module/host ids (any int: in and out of the valid range), the client's module id 1..99, host id int16, signal type int32, running message count"))
    return obs

MANIFEST = {
    "text": "For every int32 message type (except the ALL sentinel), every int16 destination/source id, every payload size 0..65535, "
            "every assignment of module ids and every combination of logger/subscription/writable flags over 2 (quick) or 3 (thorough) recipients, "
            "the real forward_message/process_message deliver exactly as C01 specifies: CrossHair exhausts the path tree of each shard and z3 decides each branch. "
            "Bounded in the number of simultaneous recipients only; histories are covered by the one-step-from-any-Inv-state argument (DESIGN.md section 3), "
            "cross-checked by bounded histories from the initial state (publish / subscription change / publish) through the real process_message.",
    "note": "ctypes shadow layer + hash-free containers (validated against the real classes on every run); sockets are recorders; FAILED_MESSAGE generation is cut here (C14); service order argument per DESIGN.md section 3",
    "design_ref": "DESIGN.md 4.1",
}
