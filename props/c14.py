"""C14 - undeliverable messages are reported, not silently lost."""
import itertools
from engine.runner import Obligation
from engine.mgrworld import STUBS  # noqa: F401

VALIDATORS = ["engine.validate_shadow", "engine.validate_standins"]
ENC = ["pyrtma.manager:MessageManager.forward_message", "pyrtma.manager:MessageManager.send_failed_message",
       "pyrtma.manager:MessageManager.send_to_loggers", "pyrtma.manager:MessageManager.remove_module",
       "pyrtma.manager:MessageManager.send_client_close", "pyrtma.manager:MessageManager.send_message",
       "pyrtma.manager:Module.send_message"]
ASSUMPTIONS = [
    "only the direction 'undeliverable to an eligible subscriber => reported' is asserted, with an upper bound: no notice names a module that did receive the message (the code also reports a not-ready subscriber that the destination filter would have skipped; the statement does not forbid that)",
    "a failing subscriber that itself listens to notices may be killed by a notice before the message reaches it: then no notice about it is required",
    "the blocking wait for a logger (select with no timeout) returns; a logger is never skipped",
    "connection fault model: dead from its k-th sendall on (k=0 header half, k=1 payload half)",
]


def shards(tier):
    one = [(sk, wr, fl) for sk in (0, 1, 2) for wr in (0, 1) for fl in (0, 1, 2)]
    out = []
    if tier == "quick":
        A = [(1, 0, 0), (2, 0, 0), (1, 1, 1), (1, 1, 2), (2, 1, 1)]
        B = [(2, 1, 0), (1, 1, 0), (0, 1, 0), (1, 0, 0)]
        for a in A:
            for b in B:
                out.append({"rec": [list(a), list(b)], "mclass": "gen"})
        for mc in ("8", "40", "41", "42", "43", "44", "45"):   # every type whose delivery failure must stay unreported
            out.append({"rec": [[1, 0, 0], [2, 1, 0]], "mclass": mc})
        for mc in ("8", "42"):
            out.append({"rec": [[1, 1, 1], [0, 1, 0]], "mclass": mc})
    else:
        for a, b in itertools.product(one, repeat=2):
            if a[0] == 0 and b[0] == 0:
                continue
            out.append({"rec": [list(a), list(b)], "mclass": "gen"})
        for mc in ("8", "33", "40", "41", "42", "43", "44", "45"):
            for a in [(1, 0, 0), (2, 0, 0), (1, 1, 1), (2, 1, 2)]:
                for b in [(2, 1, 0), (0, 1, 0), (1, 0, 0)]:
                    out.append({"rec": [list(a), list(b)], "mclass": mc})
        for a in [(1, 0, 0), (1, 1, 1), (2, 1, 2)]:
            for b in [(1, 0, 0), (1, 1, 2), (2, 1, 0)]:
                out.append({"rec": [list(a), list(b), [2, 1, 0]], "mclass": "gen"})
    # the undeliverable message is one the manager originates itself (CLIENT_INFO): reporting it nests further manager messages
    from pyrtma import core_defs as cd
    ci = str(cd.MT_CLIENT_INFO)
    for a in ([1, 1, 1], [1, 1, 2], [1, 0, 0], [2, 1, 1]):
        for b in ([2, 1, 0],) if tier == "quick" else ([2, 1, 0], [1, 1, 0], [0, 1, 0]):
            out.append({"rec": [a, b], "mclass": ci, "origin": "mgr"})
    return out


def obligations(tier):
    return [Obligation("undeliverable_is_reported", "harness.mgr_faults", "c14", shards(tier), cond_timeout=500, path_timeout=60,
                       reach="c14_reach", reach_shards=[{"rec": [[1, 0, 0], [2, 1, 0]], "mclass": "gen"}], encoded=ENC,
                       bounds="2 recipients (3 in part of the thorough tier), each: not subscribed / subscribed to the type / to ALL; ready or not; healthy / dying at header / dying at payload; message type generic or each guard type (FAILED_MESSAGE, RTMA_LOG*) or CLIENT_CLOSED",
                       symbolic="msg_type (int32 outside the special ids, or the special id), dest_mod 0..200, src id, module ids 0..199, per recipient: logger, subscribed to FAILED_MESSAGE, subscribed to CLIENT_CLOSED")]


MANIFEST = {
    "text": "For every message type, destination, id assignment and every combination (within the shard space) of not-ready and failing subscribers, loggers and FAILED_MESSAGE listeners, the real forward_message/send_failed_message "
            "publish a FAILED_MESSAGE naming each undeliverable eligible subscriber with the original type/source/destination to every able FAILED_MESSAGE subscriber, still hand the message exactly once to every other eligible subscriber, "
            "wait for loggers, and never produce a notice for an undeliverable FAILED_MESSAGE/RTMA_LOG* message. CrossHair exhausts each shard.",
    "note": "fault/select stubs as listed; ctypes shadows validated per run",
    "design_ref": "DESIGN.md 4.14",
}
