"""C06 - module identity: unique ids, sound dynamic ids, options honoured."""
from engine.runner import Obligation
from engine.mgrworld import STUBS  # noqa: F401
from props.c03 import ENC

VALIDATORS = ["engine.validate_shadow", "engine.validate_standins"]
ASSUMPTIONS = [
    "Inv I5 on the pre-state (no two connected modules share an id unless both allow multiple; ids in 1..199); the obligation re-establishes it, so histories of any length are covered",
    "names are drawn from the pool {'', 'a', 'b'} by shard: every equality/emptiness pattern between the request and two incumbents; name bytes are C03's subject",
    "a unique newcomer that shares the name of a non-unique incumbent: the property is silent, either outcome accepted",
]


def shards(tier):
    out = []
    name_pats = [[0, 0, 1, 2], [0, 1, 1, 2], [0, 1, 2, 1], [0, 1, 1, 1], [0, 2, 1, 1], [0, 0, 0, 0], [0, 1, 0, 0]]
    for c in ("CONNECT", "CONNECT_V2"):
        for others in (["N", "A"], ["L", "N"], ["N"], []):
            for nm in (name_pats if c == "CONNECT_V2" else name_pats[:2]):
                if tier == "quick" and others in (["L", "N"], ["N"]) and nm not in name_pats[:2]:
                    continue
                out.append({"ctrl": c, "sstate": 0, "recv": "full", "others": others, "names": nm})
        # the CONNECT that follows an accepted CONNECT_V2, and re-connects of connected modules
        for ss in (1, 3):
            out.append({"ctrl": c, "sstate": ss, "recv": "full", "others": ["N", "A"], "names": [1, 1, 1, 2]})
    return out


def obligations(tier):
    return [
        Obligation("connect_identity_rule", "harness.mgr_step", "c06", shards(tier), cond_timeout=300, path_timeout=60,
                   reach="c06_reach", reach_shards=[{"ctrl": "CONNECT_V2", "sstate": 0, "recv": "full", "others": ["N", "A"], "names": [0, 1, 1, 2]}],
                   encoded=ENC,
                   bounds="one connection request against 0-2 incumbents (symbolic ids 1..199 incl. the dynamic range, symbolic unique flags); dynamic cursor 0..99 symbolic (wrap-around)",
                   symbolic="requested id int16, allow_multiple/logger/daemon int16, header src id, incumbents' ids and unique flags, cursor"),
        Obligation("dynamic_ids_exhausted_or_one_free", "harness.mgr_step", "c03_dyn", [{"off": o} for o in ((0, 99) if tier == "quick" else (0, 1, 50, 98, 99))],
                   cond_timeout=200, path_timeout=60, reach="c03_dyn_reach", encoded=ENC,
                   bounds="100 live modules on the dynamic range, the free id (none or any of 100..199) symbolic", symbolic="free id"),
        Obligation("options_honoured_through_connect_and_client_context", "harness.c06_opts", "opts",
                   [{"entry": e, "name": n} for e in ("connect", "context") for n in (0, 1)] + [{"entry": "connect", "name": n, "reconnect": 1} for n in (0, 1)], cond_timeout=200, path_timeout=60,
                   reach="opts_reach", reach_shards=[{"entry": "context", "name": 1}],
                   encoded=["pyrtma.client:Client.__init__", "pyrtma.client:Client.connect", "pyrtma.client:Client._connect_helper",
                            "pyrtma.client:client_context", "pyrtma.client:Client.send_module_ready"] + ENC,
                   bounds="one client connecting to an otherwise empty manager through Client.connect and through client_context; name empty / non-empty; a second connect on the same Client object after a lost connection",
                   symbolic="module_id 0..99 (0 = dynamic), logger_status, daemon_status, allow_multiple, dynamic-id cursor 0..99"),
    ]


MANIFEST = {
    "text": "For every requested id (int16), flags, cursor position, and every id/unique/name pattern of up to two incumbents, the real connect_module/assign_module_id accept exactly the requests C06 allows, "
            "refuse (close, no ACK, incumbents untouched) the others, assign a free dynamic id in range and report it in the ACK, and keep I5. The options a caller passes to Client.connect / client_context are checked at the manager-side Module through the real CONNECT_V2/CONNECT frames.",
    "note": "ctypes shadows, recorders; names by equality pattern over a 3-name pool",
    "design_ref": "DESIGN.md 4.6",
}
