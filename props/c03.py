"""C03 - no client can take the manager down."""
from engine.runner import Obligation
from engine.mgrworld import STUBS  # noqa: F401

VALIDATORS = ["engine.validate_shadow", "engine.validate_standins"]
ENC = ["pyrtma.manager:MessageManager.read_message", "pyrtma.manager:MessageManager.process_message",
       "pyrtma.manager:MessageManager.connect_module", "pyrtma.manager:MessageManager.assign_module_id",
       "pyrtma.manager:MessageManager.remove_module", "pyrtma.manager:MessageManager.disconnect_module",
       "pyrtma.manager:MessageManager.add_subscription", "pyrtma.manager:MessageManager.remove_subscription",
       "pyrtma.manager:MessageManager.pause_subscription", "pyrtma.manager:MessageManager.resume_subscription",
       "pyrtma.manager:MessageManager.set_module_name", "pyrtma.manager:MessageManager.register_module_ready",
       "pyrtma.manager:MessageManager.message", "pyrtma.manager:MessageManager.forward_message",
       "pyrtma.manager:MessageManager.send_ack", "pyrtma.manager:MessageManager.send_to_loggers",
       "pyrtma.manager:MessageManager.send_client_info", "pyrtma.manager:MessageManager.send_client_close",
       "pyrtma.manager:MessageManager.send_failed_message", "pyrtma.manager:MessageManager.send_message",
       "pyrtma.manager:Module.send_message"]
CTRLS = ["CONNECT", "CONNECT_V2", "DISCONNECT", "SUBSCRIBE", "UNSUBSCRIBE", "PAUSE_SUBSCRIPTION", "RESUME_SUBSCRIPTION",
         "CLIENT_SET_NAME", "MODULE_READY", "data"]
ASSUMPTIONS = [
    "socket contract: recv_into raises ValueError for a negative size or a size beyond the buffer (CPython), returns fewer bytes than asked only when the peer closed, or raises ConnectionError; sendall on a closed socket raises OSError(EBADF)",
    "a client that stops reading or withholds the rest of a frame is outside the property (stated there)",
    "OS resource exhaustion (fd limits, memory) outside",
]


def step_shards(tier):
    out = []
    recvs = ["full", "short_h", "reset_h", "short_d", "short_d1", "reset_d"]
    for c in CTRLS:
        for ss in (0, 1, 2, 3):
            for rv in recvs:
                if tier == "quick" and rv in ("reset_h", "short_d", "short_d1") and c not in ("SUBSCRIBE", "data", "CONNECT_V2"):
                    continue
                base = {"ctrl": c, "sstate": ss, "recv": rv, "others": ["L", "A"], "names": [1, 1, 1, 2]}
                out.append(base)
                if c in ("CONNECT_V2", "CLIENT_SET_NAME") and rv == "full":
                    out.append(dict(base, names=[0, 0, 1, 2]))
                    out.append(dict(base, names=[1, 2, 1, 1]))
                if tier != "quick" and rv == "full":
                    out.append(dict(base, slog=1))
                    out.append(dict(base, others=["A", "N"]))
                    out.append(dict(base, sfail=1))
                    out.append(dict(base, sfail=2))
    return out


def obligations(tier):
    obs = [Obligation("service_step_any_frame", "harness.mgr_step", "c03", step_shards(tier), cond_timeout=150, path_timeout=30,
                      reach="c03_reach", reach_shards=[{"ctrl": "SUBSCRIBE", "sstate": 1, "recv": "full", "others": ["L", "A"], "names": [1, 1, 1, 2]}],
                      encoded=ENC,
                      bounds="one service step (read_message+process_message, as run() performs it) from any Inv state with the sender in each protocol state and 2 other modules (logger, ALL-monitor); receive outcome full/short/reset at header and at payload; names from a 3-element pool",
                      symbolic="every header field over its C range (msg_type, num_data_bytes, remaining_bytes int32; ids int16), control payload integers over their C ranges, module ids, dynamic-id cursor 0..99, unique flags")]
    # the accept path of the real run() loop: a connection waiting on the listening socket in a round in which clients are ready too
    acc = [{"f1": f1, "f2": f2, "s1": s1, "s2": 0, "rev": rev, "accept": 1}
           for f1, f2 in (("data", "sub"), ("disc", "data"), ("suball", "data")) for s1 in (0, 2) for rev in (0, 1)]
    if tier != "quick":
        acc += [dict(a, f2dead=1) for a in acc]
    obs.append(Obligation("accept_while_clients_are_ready", "harness.mgr_round", "rnd", acc, cond_timeout=120, path_timeout=30,
                          reach="rnd_reach", reach_shards=[acc[0]], encoded=ENC + ["pyrtma.manager:MessageManager.run", "pyrtma.manager:MessageManager.generate_uid"],
                          bounds="one round of the real run() loop: a new connection on the listening socket plus two ready clients (frame kinds as in C01's round harness), both service orders",
                          symbolic="message type, payload size"))
    obs.append(Obligation("name_arbitrary_bytes", "harness.mgr_step", "c03_name", [{"ctrl": "CONNECT_V2"}, {"ctrl": "CLIENT_SET_NAME"}],
                          cond_timeout=120, reach="c03_name_reach", encoded=ENC + ["pyrtma.validators:String.__get__", "pyrtma.manager:MessageManager.set_module_name"],
                          bounds="name: arbitrary non-NUL bytes of length <= 3 (so non-ASCII included), rest of the frame concrete",
                          symbolic="name bytes"))
    obs.append(Obligation("all_dynamic_ids_in_use", "harness.mgr_step", "c03_dyn", [{"off": o} for o in ((0, 57, 99) if tier == "quick" else (0, 1, 42, 57, 98, 99))],
                          cond_timeout=200, path_timeout=60, reach="c03_dyn_reach", encoded=ENC,
                          bounds="100 live modules on the dynamic ids; the free id (none, or any one of 100..199) symbolic; cursor at selected offsets",
                          symbolic="which dynamic id is free (or none)"))
    fsh = []
    for a in (([1, 1, 1], [2, 1, 2]) if tier == "quick" else ([1, 1, 1], [1, 1, 2], [2, 1, 1], [2, 1, 2])):
        for b in (([2, 1, 1], [1, 1, 2]) if tier == "quick" else ([2, 1, 1], [1, 1, 1], [2, 1, 2], [1, 1, 2], [2, 1, 0])):
            fsh.append({"rec": [a, b], "mclass": "gen"})
    fsh3 = []
    if tier != "quick":
        for a in ([1, 1, 1], [2, 1, 2]):
            for b in ([2, 1, 1], [1, 1, 2]):
                fsh3.append({"rec": [a, b, [2, 1, 1]], "mclass": "gen"})
                fsh.append({"rec": [a, b], "mclass": "33"})
    obs.append(Obligation("simultaneous_write_failures_never_escape", "harness.mgr_faults", "c07", fsh, cond_timeout=400, path_timeout=60,
                          reach="c07_reach", reach_shards=[{"rec": [[1, 1, 1], [2, 1, 1]], "mclass": "gen"}], encoded=ENC,
                          bounds="one delivery during which 1-2 (3 in the thorough tier) recipients' connections die (at the header or the payload half), the later ones also recipients of the notices the first removal publishes",
                          symbolic="msg_type, destination, module ids, logger bits, notice subscriptions, drop counters"))
    if fsh3:
        obs.append(Obligation("three_simultaneous_write_failures", "harness.mgr_faults", "c07", fsh3, cond_timeout=2400, path_timeout=120,
                              encoded=ENC, bounds="three recipients of one delivery all dying (header or payload half), each a recipient of the notices the earlier removals publish",
                              symbolic="msg_type, destination, module ids, logger bits, notice subscriptions, drop counters"))
    P = "harness.mgr_periodic"
    PENC = ["pyrtma.manager:MessageManager.send_timing_message", "pyrtma.manager:MessageManager.send_traffic",
            "pyrtma.manager:MessageManager.send_active_clients", "pyrtma.manager:MessageManager.sending_traffic_ctx",
            "pyrtma.manager:MessageManager.forward_message", "pyrtma.manager:MessageManager.send_message"]
    obs.append(Obligation("timing_message_any_types", P, "h_timing", [{"K": k} for k in ((0, 1, 2) if tier == "quick" else (0, 1, 2, 3))],
                          cond_timeout=300, path_timeout=60, reach="h_timing_reach", reach_shards=[{"K": 1}], encoded=PENC,
                          bounds="<= 2 (quick) / 3 (thorough) distinct message types counted in the interval",
                          symbolic="type ids over all of int32, counts 1..65535, a module id and pid, probe index 0..9999"))
    obs.append(Obligation("traffic_never_raises", P, "h_traffic", [{"K": k} for k in (0, 1, 64, 65)], cond_timeout=200, path_timeout=60,
                          reach="h_traffic_reach", reach_shards=[{"K": 1}], encoded=PENC, bounds="K distinct types per interval: 0, 1, 64, 65",
                          symbolic="two type ids (int32) and their counts, seqno"))
    obs.append(Obligation("active_clients_table_size", P, "h_active", [{"N": n} for n in ((0, 1, 254, 255, 300) if tier == "quick" else (0, 1, 2, 253, 254, 255, 256, 300, 600))],
                          cond_timeout=200, path_timeout=60, reach="h_active_reach", reach_shards=[{"N": 1}], encoded=PENC,
                          bounds="module table of N+2 entries (N up to 600); send_client_info stubbed here (covered by the step obligation)",
                          symbolic="a module id and pid in the table"))
    return obs


MANIFEST = {
    "text": "For every value of every header field and control-payload integer (full C ranges, declared length over all of int32), every protocol state of the sender, "
            "and every receive outcome, one service step of the real manager raises nothing that run() does not catch and leaves tables that list exactly the open connections (Inv); "
            "periodic senders and index arithmetic for large tables are separate obligations. CrossHair exhausts each shard's path tree.",
    "note": "socket/select contracts as stubs (listed in evidence); ctypes shadow layer validated per run; histories by induction over Inv",
    "design_ref": "DESIGN.md 4.3",
}
