"""C03 - no client can take the manager down."""
from engine.runner import Obligation
from engine.mgrworld import STUBS  # noqa: F401

VALIDATORS = ["engine.validate_shadow", "engine.validate_standins"]
ENC = ["pyrtma.manager:MessageManager.read_message", "pyrtma.manager:MessageManager.process_message",
       "pyrtma.manager:MessageManager.connect_module", "pyrtma.manager:MessageManager.assign_module_id",
       "pyrtma.manager:MessageManager.remove_module", "pyrtma.manager:MessageManager.disconnect_module",
       "pyrtma.manager:MessageManager.add_subscription", "pyrtma.manager:MessageManager.remove_subscription",
       "pyrtma.manager:MessageManager.pause_subscription", "pyrtma.manager:MessageManager.resume_subscription",
       "pyrtma.manager:MessageManager.set_module_name", "pyrtma.manager:MessageManager.register_module_ready",
       "pyrtma.manager:MessageManager.message", "pyrtma.manager:MessageManager.forward_message",
       "pyrtma.manager:MessageManager.send_ack", "pyrtma.manager:MessageManager.send_to_loggers",
       "pyrtma.manager:MessageManager.send_client_info", "pyrtma.manager:MessageManager.send_client_close",
       "pyrtma.manager:MessageManager.send_failed_message", "pyrtma.manager:MessageManager.send_message",
       "pyrtma.manager:Module.send_message"]
CTRLS = ["CONNECT", "CONNECT_V2", "DISCONNECT", "SUBSCRIBE", "UNSUBSCRIBE", "PAUSE_SUBSCRIPTION", "RESUME_SUBSCRIPTION",
         "CLIENT_SET_NAME", "MODULE_READY", "data"]
ASSUMPTIONS = [
    "socket contract: recv_into raises ValueError for a negative size or a size beyond the buffer (CPython), returns fewer bytes than asked only when the peer closed, or raises ConnectionError; sendall on a closed socket raises OSError(EBADF)",
    "a client that stops reading or withholds the rest of a frame is outside the property (stated there)",
    "OS resource exhaustion (fd limits, memory) outside",
]


def step_shards(tier):
    out = []
    recvs = ["full", "short_h", "reset_h", "short_d", "reset_d"]
    for c in CTRLS:
        for ss in (0, 1, 2, 3):
            for rv in recvs:
                if tier == "quick" and rv in ("reset_h", "short_d") and c not in ("SUBSCRIBE", "data", "CONNECT_V2"):
                    continue
                base = {"ctrl": c, "sstate": ss, "recv": rv, "others": ["L", "A"], "names": [1, 1, 1, 2]}
                out.append(base)
                if c in ("CONNECT_V2", "CLIENT_SET_NAME") and rv == "full":
                    out.append(dict(base, names=[0, 0, 1, 2]))
                    out.append(dict(base, names=[1, 2, 1, 1]))
                if tier != "quick" and rv == "full":
                    out.append(dict(base, slog=1))
                    out.append(dict(base, others=["A", "N"]))
                    out.append(dict(base, sfail=1))
                    out.append(dict(base, sfail=2))
    return out


def obligations(tier):
    obs = [Obligation("service_step_any_frame", "harness.mgr_step", "c03", step_shards(tier), cond_timeout=150, path_timeout=30,
                      reach="c03_reach", reach_shards=[{"ctrl": "SUBSCRIBE", "sstate": 1, "recv": "full", "others": ["L", "A"], "names": [1, 1, 1, 2]}],
                      encoded=ENC,
                      bounds="one service step (read_message+process_message, as run() performs it) from any Inv state with the sender in each protocol state and 2 other modules (logger, ALL-monitor); receive outcome full/short/reset at header and at payload; names from a 3-element pool",
                      symbolic="every header field over its C range (msg_type, num_data_bytes, remaining_bytes int32; ids int16), control payload integers over their C ranges, module ids, dynamic-id cursor 0..99, unique flags")]
    return obs


MANIFEST = {
    "text": "For every value of every header field and control-payload integer (full C ranges, declared length over all of int32), every protocol state of the sender, "
            "and every receive outcome, one service step of the real manager raises nothing that run() does not catch and leaves tables that list exactly the open connections (Inv); "
            "periodic senders and index arithmetic for large tables are separate obligations. CrossHair exhausts each shard's path tree.",
    "note": "socket/select contracts as stubs (listed in evidence); ctypes shadow layer validated per run; histories by induction over Inv",
    "design_ref": "DESIGN.md 4.3",
}
