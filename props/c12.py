"""C12 - id and name conflicts are always detected, never invented."""
import itertools
from engine.runner import Obligation
from harness_meta import C12_STUBS as STUBS  # noqa: F401

VALIDATORS = []
KINDS = ["const", "str", "alias", "struct", "msg", "signal", "reserved", "module", "host"]
ENC = ["pyrtma.parser:Parser.check_duplicate_name", "pyrtma.parser:Parser.check_name", "pyrtma.parser:Parser.handle_expression",
       "pyrtma.parser:Parser.handle_string", "pyrtma.parser:Parser.handle_alias", "pyrtma.parser:Parser.handle_struct",
       "pyrtma.parser:Parser.handle_message_def", "pyrtma.parser:Parser.handle_signal", "pyrtma.parser:Parser.handle_reserve",
       "pyrtma.parser:Parser.handle_module_id", "pyrtma.parser:Parser.handle_host_id", "pyrtma.parser:Parser.validate_msg_id",
       "pyrtma.parser:Parser.add_fields"]
ENC2 = ["pyrtma.parser:Parser.parse", "pyrtma.parser:Parser.parse_file", "pyrtma.parser:Parser.parse_text",
        "pyrtma.parser:Parser.handle_import", "pyrtma.parser:Parser.trim_root"] + ENC
ASSUMPTIONS = [
    "names matter only through equality: each name is an index into a 3-name pool, which covers every equality pattern among up to three names",
    "when two rules apply at once (same name and same id) either of the corresponding errors is accepted",
    "a prior state that itself conflicts is not a pre-state; prior entries are registered with the real handlers",
    "YAML surface syntax (ruamel) is outside: handlers receive the parsed dictionaries; the three written forms of reserved ranges go through the real regular expression concretely",
]


def reg_shards(tier):
    out = []
    for new in KINDS:
        out.append({"prior": [], "new": new})
        for p1 in KINDS:
            out.append({"prior": [p1], "new": new})
            if new in ("module", "host"):
                out.append({"prior": [p1], "new": new, "core": 1})
    if tier == "quick":
        triples = [("msg", "signal", "reserved"), ("reserved", "msg", "signal"), ("const", "struct", "alias"), ("str", "msg", "struct"),
                   ("module", "module", "module"), ("host", "host", "host"), ("alias", "signal", "const"), ("struct", "reserved", "msg")]
    else:
        triples = list(itertools.product(KINDS, repeat=3))
    for a, b, c in triples:
        out.append({"prior": [a, b], "new": c})
    return out


def clo_shards(tier):
    out = []
    if tier == "quick":
        edge_sets = [[0, 0, 0, 0, 0, 0], [1, 0, 0, 0, 0, 0], [1, 1, 0, 0, 0, 0], [1, 0, 1, 0, 1, 0], [1, 1, 1, 1, 1, 0], [1, 0, 0, 1, 0, 1],
                     [1, 1, 1, 1, 1, 1], [0, 1, 0, 0, 1, 1]]
        places = [[0, 0], [0, 1], [1, 2], [2, 3], [1, 3], [3, 3], [0, 3]]
        for e in edge_sets:
            for pl in places:
                out.append({"edges": e, "place": pl, "kinds": ["msg", "msg"]})
        for kinds in (["module", "module"], ["const", "struct"], ["msg", "signal"], ["host", "host"]):
            for e in (edge_sets[3], edge_sets[5], edge_sets[6]):
                for pl in ([1, 3], [0, 2], [2, 2]):
                    out.append({"edges": e, "place": pl, "kinds": kinds, "twice": 1})
        # files spread over sibling directories, imports spelled with ".." (the same file reached through different texts)
        for e in (edge_sets[3], edge_sets[4], edge_sets[5], edge_sets[6], [0, 1, 0, 0, 1, 1]):
            for pl in ([3, 3], [1, 3], [0, 3], [2, 3]):
                out.append({"edges": e, "place": pl, "kinds": ["msg", "msg"], "layout": "tree"})
        # every file lists its imports in the opposite order: an already-read file in another directory is met first, a new
        # relative import follows it (the working directory must be back where it was)
        for e in ([1, 1, 1, 1, 1, 0], [1, 1, 1, 1, 1, 1], [1, 1, 0, 1, 1, 0], [1, 1, 1, 0, 1, 1]):
            for pl in ([1, 3], [2, 2]):
                out.append({"edges": e, "place": pl, "kinds": ["msg", "msg"], "layout": "tree", "rev": 1})
                out.append({"edges": e, "place": pl, "kinds": ["msg", "signal"], "layout": "tree", "rev": 1, "twice": 1})
        # range rules across the closure: core definitions imported first, ids over all ints, one file named core_defs.yaml
        for kinds in (["module", "module"], ["host", "msg"]):
            for rev in (0, 1):
                for pl in ([1, 3], [0, 1]):
                    out.append({"edges": [1, 1, 1, 1, 1, 0], "place": pl, "kinds": kinds, "layout": "tree_core", "rev": rev, "coredefs": 1})
    else:
        edge_sets = [list(b) for b in itertools.product((0, 1), repeat=6)]
        places = [[i, j] for i in range(4) for j in range(4)]
        for e in edge_sets:
            for pl in places:
                out.append({"edges": e, "place": pl, "kinds": ["msg", "msg"]})
                if sum(e) >= 3 and pl[0] <= pl[1]:
                    out.append({"edges": e, "place": pl, "kinds": ["msg", "signal"], "twice": 1})
                    out.append({"edges": e, "place": pl, "kinds": ["msg", "msg"], "layout": "tree"})
                    out.append({"edges": e, "place": pl, "kinds": ["msg", "msg"], "layout": "tree", "rev": 1})
                if sum(e) >= 5 and pl in ([1, 3], [0, 1], [2, 3], [1, 1]):
                    for lay in ("tree", "tree_core"):
                        for kinds in (["module", "module"], ["host", "msg"]):
                            out.append({"edges": e, "place": pl, "kinds": kinds, "layout": lay, "rev": (sum(e) + pl[0]) % 2, "coredefs": 1})
        for kinds in (["module", "module"], ["const", "struct"], ["host", "host"], ["struct", "msg"], ["signal", "signal"]):
            for e in edge_sets[::3]:
                for pl in ([1, 3], [0, 2], [2, 2], [3, 1]):
                    out.append({"edges": e, "place": pl, "kinds": kinds, "twice": 1})
    return out


def obligations(tier):
    return [
        Obligation("registry_step_conflict_iff_collision", "harness.c12_registry", "reg", reg_shards(tier), cond_timeout=400, path_timeout=60,
                   reach="reg_reach", reach_shards=[{"prior": ["msg", "signal"], "new": "reserved"}], encoded=ENC,
                   bounds="a parser holding 0-2 entries of any kinds (all pairs in the thorough tier) receives one more entry of any kind; names from a 3-name pool",
                   symbolic="every id (any int, so every range boundary), every name index"),
        Obligation("reserved_ranges_written_forms", "harness.c12_registry", "resv",
                   [{"form": f, "lo": lo, "span": sp} for f in ("dash", "to", "spaced") for (lo, sp) in ((100, 0), (200, 10), (9990, 10))],
                   cond_timeout=300, path_timeout=60, reach="resv_reach", encoded=ENC,
                   bounds="reserved ranges written 'a-b', 'a to b', ' a - b ' with spans 0 and 10 at three positions; one later definition",
                   symbolic="the id of the later definition 0..10000"),
        Obligation("closure_conflict_iff_collision_read_once", "harness.c12_closure", "clo", clo_shards(tier), cond_timeout=400, path_timeout=60,
                   reach="clo_reach", reach_shards=[{"edges": [1, 1, 1, 1, 1, 1], "place": [1, 3], "kinds": ["msg", "signal"]}], encoded=ENC2,
                   bounds="files in one directory and spread over directories of different depth (imports spelled with .., both import-list orders); with and without the package core definitions imported first (then module/host/message ids over all ints and one file named core_defs.yaml); import graphs over a root and 3 files (%s edge sets incl. diamonds and a cycle, a repeated import), two items placed in any two files (%s placements)" % (("8 selected", "7") if tier == "quick" else ("all 64", "all 16")),
                   symbolic="both ids (valid range of the kind), both name indices"),
    ]


MANIFEST = {
    "text": "Registry: for every id value and name-equality pattern, adding one entry of any kind to a parser holding up to two entries raises the corresponding error iff there is a collision or a range violation, and otherwise registers exactly that entry. "
            "Closure: over import graphs of a root and three files (diamonds, chains, a cycle, repeated imports) with two items placed anywhere, the real parse() reports a conflict iff both items are reachable and collide, reads every reachable file exactly once and restores the working directory - with files in one directory or spread over directories of different depth, both import-list orders, and (core definitions imported first, ids over all ints, one file named core_defs.yaml) the id range rules. CrossHair exhausts each shard.",
    "note": "YAML loader stubbed (dictionaries per file); names via 3-name pool; logging off",
    "design_ref": "DESIGN.md 4.12",
}
