"""C02 - client and manager always agree on the subscription set."""
import itertools
from engine.runner import Obligation
from engine import cliworld, mgrworld

VALIDATORS = ["engine.validate_shadow", "engine.validate_standins"]
STUBS = list(mgrworld.STUBS) + list(cliworld.STUBS)
ENC = ["pyrtma.client:Client._subscription_control", "pyrtma.client:Client.subscribe", "pyrtma.client:Client.unsubscribe",
       "pyrtma.client:Client.pause_subscription", "pyrtma.client:Client.resume_subscription",
       "pyrtma.client:Client.unsubscribe_from_all", "pyrtma.client:Client.pause_all_subscriptions",
       "pyrtma.client:Client.resume_all_subscriptions", "pyrtma.client:Client.subscription_context",
       "pyrtma.client:Client.paused_subscription_context", "pyrtma.client:requires_connection",
       "pyrtma.manager:MessageManager.add_subscription", "pyrtma.manager:MessageManager.remove_subscription",
       "pyrtma.manager:MessageManager.pause_subscription", "pyrtma.manager:MessageManager.resume_subscription",
       "pyrtma.manager:MessageManager.process_message"]
OPS_LIST = ("subscribe", "unsubscribe", "pause_subscription", "resume_subscription")
OPS_BULK = ("unsubscribe_from_all", "pause_all_subscriptions", "resume_all_subscriptions")
OPS_CTX = ("subscription_context", "paused_subscription_context")
ASSUMPTIONS = [
    "the pre-state is any client state (each of 3 symbolic type ids none/subscribed/paused, or subscribed-to-all) with the manager state that agreement and Inv dictate; the obligation shows agreement is preserved by every operation, so every history is covered by induction; reachability of each pre-state shape is witnessed by the operations themselves (subscribe / pause from the empty state)",
    "control frames reach the manager in emission order (TCP) and are all processed before the oracle looks (acknowledgements act as fences in the real client)",
    "context-manager bodies make no subscription changes of their own and exit normally (as the statement says)",
    "set iteration order: the obligation is repeated under forward, reversed and rotated iteration of the stand-in set",
]


def shards(tier):
    out = []
    states = [list(p) for p in itertools.product((0, 1, 2), repeat=3)] + ["all"]
    if tier == "quick":
        states = [[0, 0, 0], [1, 0, 0], [2, 0, 0], [1, 2, 0], [1, 1, 2], [2, 2, 1], "all"]
    rich = [[0, 0, 0], [1, 0, 0], [2, 0, 0], [1, 2, 0], [1, 1, 2], [2, 2, 1], [1, 1, 1], [2, 2, 2], [0, 1, 2], "all"]
    for pre in states:
        for op in OPS_LIST:
            for n in ((0, 1, 2) if (tier == "quick" or pre not in rich) else (0, 1, 2, 3)):
                if tier == "quick" and n == 0 and pre not in ([0, 0, 0], "all"):
                    continue
                out.append({"pre": pre, "op": op, "n": n})
                if n == 2 and ((tier != "quick" and pre in rich) or pre in ([1, 2, 0], "all")):
                    out.append({"pre": pre, "op": op, "n": n, "order": "rev"})
                    if tier != "quick":
                        out.append({"pre": pre, "op": op, "n": n, "order": "rot"})
        for op in OPS_BULK:
            out.append({"pre": pre, "op": op, "n": 0})
            if tier != "quick":
                out.append({"pre": pre, "op": op, "n": 0, "order": "rev"})
        for op in OPS_CTX:
            for n in ((1, 2) if tier == "quick" else ((0, 1, 2, 3) if pre in rich else (1, 2))):
                out.append({"pre": pre, "op": op, "n": n})
    return out


def obligations(tier):
    return [Obligation("agreement_preserved_by_every_operation", "harness.c02_subs", "subs", shards(tier), cond_timeout=600, path_timeout=60,
                       reach="subs_reach", reach_shards=[{"pre": [1, 2, 0], "op": "subscribe", "n": 2}, {"pre": [1, 2, 0], "op": "subscription_context", "n": 2}],
                       encoded=ENC,
                       bounds="universe of 3 type ids + ALL; one operation (or one enter/exit of a context) from any agreeing state; argument lists of length <= 2 (quick) / <= 3 (thorough)",
                       symbolic="the 3 universe ids (int32, pairwise distinct), every list element (int32; may equal each other, a universe id, or ALL_MESSAGE_TYPES), a probe id")]


MANIFEST = {
    "text": "From every agreeing client/manager state over a universe of three symbolic type ids (each none/subscribed/paused, or subscribed-to-all), for every API operation and every argument list up to the bound "
            "(elements symbolic: duplicates, members, non-members, ALL alone or mixed), the real Client methods composed with the real manager handlers keep: reported-subscribed == delivered, paused not delivered, "
            "individual changes under subscribed-to-all refused without any effect, contexts restore the entry state, manager Inv. Decided by CrossHair/z3 per shard.",
    "note": "Client.send_message replaced by a recorder whose frames are fed to the real process_message; hash-free sets (validated) in place of set(); ctypes shadows",
    "design_ref": "DESIGN.md 4.2",
}
