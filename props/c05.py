"""C05 - per-connection order, whole frames and gap-free sequence numbers."""
import itertools
from engine.runner import Obligation
from engine.mgrworld import STUBS  # noqa: F401
from props.c03 import ENC

VALIDATORS = ["engine.validate_shadow", "engine.validate_standins"]
KINDS = ["A", "B", "sub0", "timing", "traffic", "info"]
ASSUMPTIONS = [
    "TCP delivers each connection's bytes in order and the OS never reorders two sendall calls: the recorded sequence of sendall calls on a connection is its byte stream",
    "the manager is single-threaded: the steps of a history run one after another (service order = one of these sequential histories, DESIGN.md section 3)",
    "data frames are tagged through the header's reserved field (which the manager forwards untouched) so that the oracle can recognise each frame",
]


def shards(tier):
    out = []
    if tier == "quick":
        seqs = [list(s) for s in itertools.product(KINDS, repeat=2)] + [["A", "B", "A"], ["A", "sub0", "A"], ["B", "timing", "A"],
                                                                        ["A", "traffic", "B"], ["sub0", "A", "info"], ["A", "A", "A"]]
        for s in seqs:
            out.append({"steps": s, "rsub": [2, 3], "xdrop": 1})
        for s in (["A", "B"], ["A", "A"], ["A", "sub0", "B"]):
            out.append({"steps": s, "rsub": [0, 1], "xdrop": 0})
            out.append({"steps": s, "rsub": [3, 3], "xdrop": 1})
            out.append({"steps": s, "rsub": [2, 2], "xdrop": 1, "r1fail": 2})
            out.append({"steps": s, "rsub": [2, 2], "xdrop": 0, "r1fail": 1})
            out.append({"steps": s, "rsub": [2, 2], "xdrop": 0, "r0block": 1})
            out.append({"steps": s, "rsub": [2, 3], "xdrop": 1, "r0block": 2})
        # a recipient that is not ready for some of the steps: drops must not show in the numbering of what it does receive
        for s, skip in ((["A", "A", "A"], [1]), (["A", "B", "A"], [0]), (["A", "timing", "A"], [1]), (["B", "A", "sub0", "A"], [1]), (["A", "A"], [0])):
            out.append({"steps": s, "rsub": [2, 2], "xdrop": 0, "r0skip": skip})
            out.append({"steps": s, "rsub": [3, 2], "xdrop": 1, "r0skip": skip})
        # the first recipient dies while a manager-originated message (or a client frame) is being delivered to both
        for s in (["timing"], ["A", "timing"], ["traffic", "A"], ["A", "info", "B"], ["A", "A"]):
            for k in (1, 2):
                out.append({"steps": s, "rsub": [2, 2], "xdrop": 0, "r0fail": k})
        # a recipient that is served before it has completed its handshake: the numbering runs on across the CONNECT
        for s in (["A", "conn0", "A"], ["sub0", "conn0", "B", "A"], ["A", "B", "conn0"], ["conn0", "A", "A"]):
            out.append({"steps": s, "rsub": [2, 2], "xdrop": 0, "r0new": 1})
            out.append({"steps": s, "rsub": [0, 3], "xdrop": 1, "r0new": 1})
    else:
        seqs = [list(s) for n in (1, 2, 3) for s in itertools.product(KINDS, repeat=n)]
        for s in seqs:
            out.append({"steps": s, "rsub": [2, 3], "xdrop": 1})
            if "A" in s or "B" in s:
                out.append({"steps": s, "rsub": [0, 1], "xdrop": 0})
                if len(s) <= 2:
                    out.append({"steps": s, "rsub": [3, 2], "xdrop": 1, "r1fail": 2})
                    out.append({"steps": s, "rsub": [2, 2], "xdrop": 0, "r1fail": 1})
                    out.append({"steps": s, "rsub": [2, 3], "xdrop": 1, "r0block": 1})
                    out.append({"steps": s, "rsub": [2, 2], "xdrop": 0, "r0block": 2})
                if len(s) == 2:
                    for pos in (0, 1, 2):
                        out.append({"steps": s[:pos] + ["conn0"] + s[pos:], "rsub": [2, 3], "xdrop": 0, "r0new": 1})
                if len(s) <= 2:
                    out.append({"steps": s, "rsub": [2, 2], "xdrop": 0, "r0fail": 1})
                    out.append({"steps": s, "rsub": [2, 3], "xdrop": 1, "r0fail": 2})
                if len(s) >= 2:
                    for skip in ([0], [1], [0, 1]):
                        out.append({"steps": s, "rsub": [2, 3], "xdrop": 0, "r0skip": skip})
    return out


def obligations(tier):
    return [Obligation("frames_whole_ordered_gapfree", "harness.mgr_seq", "seq", shards(tier), cond_timeout=400, path_timeout=60,
                       reach="seq_reach", reach_shards=[{"steps": ["A", "B"], "rsub": [2, 3], "xdrop": 1}],
                       encoded=ENC + ["pyrtma.manager:MessageManager.send_timing_message", "pyrtma.manager:MessageManager.send_traffic"],
                       bounds="sequences of <= 3 steps over {data frame from A, data frame from B, SUBSCRIBE from a recipient (ACK), TIMING_MESSAGE, MESSAGE_TRAFFIC, CLIENT_INFO}, 2 recipients with 4 subscription shapes, FAILED_MESSAGE traffic on/off, one recipient dying at either half of a frame, a recipient not ready during some of the steps, a recipient served before and after its own handshake",
                       symbolic="both data types (int32), both payload sizes 0..65535, both recipients' sequence counters before the history, the subscribed type")]


MANIFEST = {
    "text": "For every pair of data types, payload sizes 0..65535 and prior sequence counters, and every sequence of <=3 steps mixing client traffic, acknowledgements, failure notices and periodic manager messages, "
            "(also with a recipient not ready to accept data during some of the steps) each recipient's byte stream produced by the real manager is header+exactly-declared-payload frames, numbered previous+1 without gaps, with client frames in sending order (hence the same relative order at every recipient). "
            "CrossHair exhausts each shard.",
    "note": "recorders for sockets; ctypes shadows validated; TCP in-order assumption",
    "design_ref": "DESIGN.md 4.5",
}
