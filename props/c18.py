"""C18 - manager traffic statistics are exact."""
from engine.runner import Obligation
from engine.mgrworld import STUBS  # noqa: F401

VALIDATORS = ["engine.validate_shadow", "engine.validate_standins"]
P = "harness.mgr_periodic"
PENC = ["pyrtma.manager:MessageManager.send_timing_message", "pyrtma.manager:MessageManager.send_traffic",
        "pyrtma.manager:MessageManager.sending_traffic_ctx", "pyrtma.manager:MessageManager.forward_message",
        "pyrtma.manager:MessageManager.send_message"]
ASSUMPTIONS = [
    "counter contents at the start of an interval are arbitrary (the increments are a separate obligation): one interval from any counter state covers every sequence of intervals because each sender clears its counter",
    "counts above 65535 (the uint16 field) are outside the property's stated range",
    "a published message type equal to the filler value -1 is indistinguishable from an unused MESSAGE_TRAFFIC slot and is excluded",
]


def obligations(tier):
    ks = (0, 1, 2, 63, 64, 65, 127, 128, 129) if tier == "quick" else tuple(range(0, 131)) + (192, 193, 300)
    obs = [
        Obligation("traffic_entries_exact", P, "h_traffic", [{"K": k} for k in ks], cond_timeout=300, path_timeout=60,
                   reach="h_traffic_reach", reach_shards=[{"K": 65}], encoded=PENC,
                   bounds="K distinct types per interval, K in %s" % ("{0,1,2,63,64,65,127,128,129}" if tier == "quick" else "0..130, 192, 193, 300"),
                   symbolic="two of the type ids over int32 (others concrete, pairwise distinct), their counts 1..65535, seqno"),
        Obligation("timing_entries_exact", P, "h_timing", [{"K": k} for k in ((0, 1, 2) if tier == "quick" else (0, 1, 2, 3))],
                   cond_timeout=400, path_timeout=60, reach="h_timing_reach", reach_shards=[{"K": 2}], encoded=PENC,
                   bounds="<= 2 (quick) / 3 (thorough) distinct types counted in the interval; one probe slot of the 10000-entry table (symbolic, so every slot)",
                   symbolic="type ids over all of int32 (in and out of range), counts 1..65535, module id 1..199, pid int32, probe index"),
        Obligation("counters_increment_exact", P, "h_count", [{}], cond_timeout=120, reach="h_count_reach", encoded=PENC,
                   bounds="one forwarded message", symbolic="msg_type int32, inside/outside a statistics send"),
        Obligation("interval_boundaries_in_the_run_loop", P, "h_boundary",
                   [{"due": d, "listen": l, "K": k} for d in ([0, 1], [1, 0], [1, 1], [0, 0]) for l in ("none", "traffic", "timing", "all")
                    for k in ((1, 2) if tier == "quick" else (0, 1, 2))],
                   cond_timeout=200, path_timeout=60, reach="h_boundary_reach", reach_shards=[{"due": [1, 1], "listen": "all", "K": 2}],
                   encoded=PENC + ["pyrtma.manager:MessageManager.run"],
                   bounds="one idle round of the real run() loop under a controlled clock: timing / traffic interval ended or not, nobody / a MESSAGE_TRAFFIC / a TIMING_MESSAGE / an ALL subscriber listening, 0-2 types counted",
                   symbolic="the counted type ids (int32) and counts 1..65535"),
    ]
    return obs


MANIFEST = {
    "text": "TIMING_MESSAGE: for every multiset of <=3 counted types over all of int32 and every slot of the table, the reported value is that type's count (0 for unseen types), "
            "ModulePID carries the pid; MESSAGE_TRAFFIC: for every K in the stated set (covering 0, 1, chunk boundaries 63/64/65, 127/128/129) the sub-messages of one interval list each "
            "seen type exactly once with its exact count and nothing else; statistics messages are not counted; in the real run() loop under a controlled clock an interval that is closed leaves no count behind for the next one whether or not anybody listened, an open one keeps its start and its counts. Decided by CrossHair/z3 over the real senders.",
    "note": "shadow arrays (association lists for the 10000-slot table) validated against ctypes per run; listener connection is a recorder",
    "design_ref": "DESIGN.md 4.18",
}
