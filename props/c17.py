"""C17 - the data logger loses, duplicates and reorders nothing."""
from engine.runner import Obligation

VALIDATORS = []
ENC = ["pyrtma.data_logger.data_collection:DataCollection.update", "pyrtma.data_logger.data_collection:DataCollection.trigger_write",
       "pyrtma.data_logger.data_collection:DataCollection.stop", "pyrtma.data_logger.data_collection:DataCollection.write",
       "pyrtma.data_logger.data_collection:DataCollection.pause", "pyrtma.data_logger.data_collection:DataCollection.resume",
       "pyrtma.data_logger.data_collection:DataCollection.start", "pyrtma.data_logger.data_set:DataSet.stage_for_write",
       "pyrtma.data_logger.data_set:DataSet.write", "pyrtma.data_logger.data_set:DataSet.stop", "pyrtma.data_logger.data_set:DataSet.subdivide",
       "pyrtma.data_logger.data_formatter:DataFormatter.write", "pyrtma.data_logger.data_formatter:DataFormatter.finalize",
       "pyrtma.data_logger.formatters.quicklogger:QLFormatter.write", "pyrtma.data_logger.formatters.quicklogger:QLFormatter.finalize",
       "pyrtma.utils.quicklogger_reader:QLReader.load"]
from harness_meta import C17_STUBS as STUBS  # noqa: E402,F401
ASSUMPTIONS = [
    "granularity: one atomic step = one threading.Event operation followed by the code up to the next one (as the property states); pre-emption inside such a block is outside",
    "a timed wait that times out without the event being set is a stutter step and is only taken once shutdown was requested",
    "message contents are concrete (the code under test never branches on them); what is symbolic is the schedule and the placement of deadlines",
    "schedules needing more scheduling decisions than the stated budget are outside the bound (reported as such, not as success of longer runs)",
]


def shards(tier):
    out = []
    if tier == "quick":
        for fmt in ("raw", "json", "quicklogger"):
            for n in (0, 1, 2):
                out.append({"fmt": fmt, "n": n, "bits": 12})
        out.append({"fmt": "raw", "n": 3, "bits": 14})
        out.append({"fmt": "quicklogger", "n": 3, "bits": 12})
        out.append({"fmt": "raw", "n": 3, "bits": 12, "pause": 1})
        out.append({"fmt": "raw", "n": 2, "bits": 10, "subdiv": 1})
        out.append({"fmt": "quicklogger", "n": 2, "bits": 10, "subdiv": 1})
        out.append({"fmt": "raw", "n": 2, "bits": 12, "nsets": 2})
        out.append({"fmt": "raw", "n": 2, "bits": 12, "restart": 1})
        out.append({"fmt": "quicklogger", "n": 1, "bits": 12, "restart": 1})
    else:
        for fmt in ("raw", "json", "quicklogger"):
            for n in (0, 1, 2, 3, 4):
                for sub in (0, 1):
                    if sub and n >= 3:
                        continue    # subdivision x >= 3 messages: 2 symbolic deadline bits per message on top of the schedule do not finish in 900 s (measured three times); subdivision is explored with <= 2 messages
                    # budget: the number of schedules grows with messages x subdivision points; the deeper combinations get fewer
                    # contested scheduling decisions (measured: with >= 3 messages and subdivision, or 4 messages, 12-16 contested decisions do not finish in 900 s)
                    bits = 20 if n <= 2 else ((16 if n == 3 else 10) if not sub else 8)
                    out.append({"fmt": fmt, "n": n, "bits": bits, "subdiv": sub})
            for pz in (0, 1, 2):
                out.append({"fmt": fmt, "n": 3, "bits": 16, "pause": pz})
            out.append({"fmt": fmt, "n": 3, "bits": 14, "nsets": 2})
            out.append({"fmt": fmt, "n": 2, "bits": 16, "nsets": 2, "subdiv": 1})
            out.append({"fmt": fmt, "n": 2, "bits": 16, "restart": 1})
            out.append({"fmt": fmt, "n": 2, "bits": 14, "restart": 1, "subdiv": 1})
    return out


def obligations(tier):
    return [Obligation("every_interleaving_writes_each_message_once_in_order", "harness.c17_logger", "log", shards(tier), cond_timeout=900, path_timeout=120,
                       reach="log_reach", reach_shards=[{"fmt": "raw", "n": 2, "bits": 12}], encoded=ENC,
                       bounds="0-3 messages (4 in thorough), 1-2 data sets, optionally a second recording on the same collection/data-set objects after a stop, raw/json/quicklogger formatters, pause/resume around one message, flush deadlines before any message, subdivision deadlines with <= 2 messages; <= 12-14 (quick) / 16-20 (thorough) scheduling decisions between the recorder and the writer thread",
                       symbolic="the schedule bits, the per-message flush-deadline and subdivision-deadline bits")]


MANIFEST = {
    "text": "For every interleaving (at Event-operation granularity, within the decision budget) of the real recording-thread code with the real writer-thread code, every placement of flush and subdivision deadlines, each formatter and 0-3 messages, "
            "after stop() the files of each data set read back (raw bytes, JSON lines, the package's quicklogger reader) to exactly the selected messages once and in order, and no deadlock is reachable. "
            "The thread code is executed as generator twins rebuilt from the current source; CrossHair makes the scheduler's choices symbolic and exhausts them; counterexamples are replayed on real threads with controlled Events.",
    "note": "Event-operation granularity; twins regenerated from source (cotwin refuses shapes it does not understand)",
    "design_ref": "DESIGN.md 4.17",
}
