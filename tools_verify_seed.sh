#!/bin/bash
# tools_verify_seed.sh <ID> [checks...]: confirm a seeded change myself (suite passes with it, demo fails with / passes without),
# then run the given checks (default: the property's own quick check) against /repo with the patch applied, and undo it.
HERE="$(cd "$(dirname "$0")" && pwd)"
ID=$1; shift
PROP=${ID%[bcd]}            # later-round seeds are named <ID>b, <ID>c, ...
CHECKS=${@:-$PROP}
WT=/tmp/wt/$ID; SD=/tmp/seed/$ID
set -u
cd $WT || exit 2
echo "== worktree diff stat"; git diff --stat | tail -3
echo "== test suite with the change"; PYTHONPATH=$WT/src timeout 900 /venv/bin/python -m pytest -q -p no:cacheprovider --timeout=900 2>&1 | tail -2
echo "== demo with the change (expect FAIL)"; PYTHONPATH=$WT/src timeout 120 /venv/bin/python $SD/demo.py > /tmp/seed/$ID/demo_with.log 2>&1; echo "exit=$? $(tail -2 /tmp/seed/$ID/demo_with.log | tr '\n' ' ' | cut -c1-200)"
git diff > $SD/patch.diff
git apply -R $SD/patch.diff
echo "== demo without the change (expect PASS)"; PYTHONPATH=$WT/src timeout 120 /venv/bin/python $SD/demo.py > /tmp/seed/$ID/demo_without.log 2>&1; echo "exit=$? $(tail -1 /tmp/seed/$ID/demo_without.log | cut -c1-200)"
git apply $SD/patch.diff
cd "$HERE"
if [ -n "${SEED_IN_WORKTREE:-}" ]; then
  # run the checks against the worktree itself (patch applied there), leaving /repo untouched (it may be in use by a long run)
  for c in $CHECKS; do
    echo "== VERIF_REPO=$WT bin/check $c quick"
    VERIF_EVIDENCE_DIR=/tmp/seed/$ID/evidence VERIF_REPLAY_DIR=/tmp/seed/$ID/replay VERIF_REPO=$WT timeout 3000 bin/check $c quick > /tmp/seed/$ID/check_$c.log 2>&1; echo "exit=$?"; grep -E "^VIOLATION|^SUMMARY|^HARNESS|^INCONCLUSIVE" /tmp/seed/$ID/check_$c.log | head -6
  done
  exit 0
fi
git -C /repo apply $SD/patch.diff || { echo "PATCH DOES NOT APPLY to /repo"; exit 2; }
for c in $CHECKS; do
  echo "== bin/check $c quick with the change applied to /repo"
  timeout 3000 bin/check $c quick > /tmp/seed/$ID/check_$c.log 2>&1; echo "exit=$?"; grep -E "^VIOLATION|^SUMMARY|^HARNESS|^INCONCLUSIVE" /tmp/seed/$ID/check_$c.log | head -6
done
git -C /repo checkout -- . ; git -C /repo status --short | head -3
