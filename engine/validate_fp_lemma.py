"""Discharges the floating-point lemma engine/shadow.round_f32 relies on: rounding a double to float32 (RNE) and widening it
back is idempotent, bit for bit (NaN included: the result of the first conversion is a fixed point of the second).
Prints "VALIDATED 1" when z3 answers unsat for the negation; exits 1 otherwise."""
import sys
import time
import z3


def main():
    x = z3.FP("x", z3.Float64())
    r1 = z3.fpToFP(z3.RNE(), z3.fpToFP(z3.RNE(), x, z3.Float32()), z3.Float64())
    r2 = z3.fpToFP(z3.RNE(), z3.fpToFP(z3.RNE(), r1, z3.Float32()), z3.Float64())
    s = z3.Solver()
    s.set("timeout", 600000)
    # not (both NaN or IEEE-identical including the sign of zero)
    same = z3.Or(z3.And(z3.fpIsNaN(r1), z3.fpIsNaN(r2)), z3.And(z3.fpEQ(r1, r2), z3.fpIsNegative(r1) == z3.fpIsNegative(r2)))
    s.add(z3.Not(same))
    t = time.time()
    r = s.check()
    if str(r) != "unsat":
        print("LEMMA NOT PROVED: %s (%.1fs)" % (r, time.time() - t))
        sys.exit(1)
    print("VALIDATED 1")


if __name__ == "__main__":
    main()
