"""Hash-free containers: association lists compared with ==, so that a symbolic key stays symbolic.

Only the operations pyrtma performs on the real containers are implemented; the differential test in
engine/validate_standins.py compares each of them against the real dict/set/Counter on every run.
Iteration order is insertion order (real set: hash order); `order` = "fwd" | "rev" | "rot" lets an
obligation be re-run under another iteration order.
"""

ORDER = "fwd"  # module-wide default, set by harness modules from their shard


def _ordered(xs, order):
    xs = list(xs)
    if order == "rev":
        xs.reverse()
    elif order == "rot" and len(xs) > 1:
        xs = xs[1:] + xs[:1]
    return xs


class LinearSet:
    def __init__(self, it=(), order=None):
        self.xs = []
        self.order = order
        for x in it:
            self.add(x)

    def __contains__(self, x):
        for y in self.xs:
            if y == x:
                return True
        return False

    def add(self, x):
        if x not in self:
            self.xs.append(x)

    def discard(self, x):
        self.xs = [y for y in self.xs if not (y == x)]

    def remove(self, x):
        if x not in self:
            raise KeyError(x)
        self.discard(x)

    def clear(self):
        self.xs = []

    def copy(self):
        return LinearSet(self.xs, self.order)

    def __iter__(self):
        return iter(_ordered(self.xs, self.order or ORDER))

    def __len__(self):
        return len(self.xs)

    def __bool__(self):
        return len(self.xs) > 0

    def __ior__(self, o):
        for x in list(o):
            self.add(x)
        return self

    def __isub__(self, o):
        for x in list(o):
            self.discard(x)
        return self

    def __or__(self, o):
        r = self.copy()
        r |= o
        return r

    def __sub__(self, o):
        r = self.copy()
        r -= o
        return r

    # --- the rest of the set API (not used by pyrtma today; present so that a refactor using them is executed, not rejected)
    def __and__(self, o):
        ys = list(o)
        return LinearSet([x for x in self.xs if _in(x, ys)], self.order)

    __rand__ = __and__

    def __iand__(self, o):
        ys = list(o)
        self.xs = [x for x in self.xs if _in(x, ys)]
        return self

    def __xor__(self, o):
        ys = list(o)
        return LinearSet([x for x in self.xs if not _in(x, ys)] + [y for y in ys if y not in self], self.order)

    __rxor__ = __xor__

    def __ror__(self, o):
        return LinearSet(list(o), self.order) | self

    def __rsub__(self, o):
        return LinearSet([y for y in list(o) if y not in self], self.order)

    def union(self, *others):
        r = self.copy()
        for o in others:
            r |= o
        return r

    def intersection(self, *others):
        r = self.copy()
        for o in others:
            r &= o
        return r

    def difference(self, *others):
        r = self.copy()
        for o in others:
            r -= o
        return r

    def update(self, *others):
        for o in others:
            self.__ior__(o)

    def intersection_update(self, *others):
        for o in others:
            self.__iand__(o)

    def difference_update(self, *others):
        for o in others:
            self.__isub__(o)

    def issubset(self, o):
        ys = list(o)
        return all(_in(x, ys) for x in self.xs)

    def issuperset(self, o):
        return all(y in self for y in list(o))

    def isdisjoint(self, o):
        ys = list(o)
        return not any(_in(x, ys) for x in self.xs)

    __le__ = issubset
    __ge__ = issuperset

    def __lt__(self, o):
        return self.issubset(o) and not self.issuperset(o)

    def __gt__(self, o):
        return self.issuperset(o) and not self.issubset(o)

    def pop(self):
        if not self.xs:
            raise KeyError("pop from an empty set")
        return self.xs.pop()

    def __eq__(self, o):
        try:
            ys = list(o)
        except TypeError:
            return NotImplemented
        return all(_in(x, ys) for x in self.xs) and all(y in self for y in ys)

    __hash__ = None

    def __repr__(self):
        return "LinearSet(%r)" % (self.xs,)


def _in(x, ys):
    for y in ys:
        if y == x:
            return True
    return False


class LinearDict:
    """dict / defaultdict / Counter stand-in. factory=None: plain dict (KeyError on a missing key)."""

    def __init__(self, factory=None, items=()):
        self.f = factory
        self.kv = []
        for k, v in items:
            self[k] = v

    def _find(self, k):
        for i in range(len(self.kv)):
            if self.kv[i][0] == k:
                return i
        return -1

    def __getitem__(self, k):
        i = self._find(k)
        if i >= 0:
            return self.kv[i][1]
        if self.f is None:
            raise KeyError(k)
        v = self.f()
        self.kv.append((k, v))
        return v

    def __setitem__(self, k, v):
        i = self._find(k)
        if i >= 0:
            self.kv[i] = (self.kv[i][0], v)
        else:
            self.kv.append((k, v))

    def __delitem__(self, k):
        i = self._find(k)
        if i < 0:
            raise KeyError(k)
        del self.kv[i]

    def __contains__(self, k):
        return self._find(k) >= 0

    def get(self, k, default=None):
        i = self._find(k)
        return self.kv[i][1] if i >= 0 else default

    def pop(self, k, *default):
        i = self._find(k)
        if i < 0:
            if default:
                return default[0]
            raise KeyError(k)
        v = self.kv[i][1]
        del self.kv[i]
        return v

    def setdefault(self, k, v=None):
        i = self._find(k)
        if i >= 0:
            return self.kv[i][1]
        self.kv.append((k, v))
        return v

    def items(self):
        return list(self.kv)

    def keys(self):
        return [k for k, _ in self.kv]

    def values(self):
        return [v for _, v in self.kv]

    def __iter__(self):
        return iter(self.keys())

    def __len__(self):
        return len(self.kv)

    def clear(self):
        self.kv = []

    def update(self, o):
        for k, v in (o.items() if hasattr(o, "items") else o):
            self[k] = v

    def __repr__(self):
        return "LinearDict(%r)" % (self.kv,)


class LinearCounter(LinearDict):
    """collections.Counter as used by the manager: c[k] += n, items(), clear(), len().
    Like Counter, reading a missing key yields 0 without inserting it."""

    def __init__(self, items=()):
        LinearDict.__init__(self, None, items)

    def __getitem__(self, k):
        i = self._find(k)
        return self.kv[i][1] if i >= 0 else 0


class NullLogger:
    """RTMALogger / logging stand-in: every method is a no-op (log text is outside every claim)."""

    level = 0
    log_name = ""

    def __getattr__(self, k):
        if k in ("getChild", "getLogger"):
            return lambda *a, **kw: NullLogger()
        return lambda *a, **kw: None
