"""Translator test for engine/shadow.py: pushes concrete data through both the real ctypes-backed class and its
shadow and compares every observable result.  Classes: all of pyrtma.core_defs and tests/test_msg_defs/test_defs.py
plus both header layouts.  Prints "VALIDATED <n>" (number of compared observations); exits 1 on the first mismatch.
"""
import ctypes
import importlib
import math
import os
import random
import sys

sys.path.insert(0, "/repo/tests")
from pyrtma import core_defs as cd  # noqa: E402
from pyrtma.message_base import MessageBase  # noqa: E402
from pyrtma.header import MessageHeader, TimeCodeMessageHeader  # noqa: E402
from pyrtma.validators import disable_message_validation  # noqa: E402
from engine import shadow as SH  # noqa: E402

N = 0


class Mismatch(Exception):
    pass


def same(a, b):
    if isinstance(a, float) and isinstance(b, float):
        return (math.isnan(a) and math.isnan(b)) or (a == b and math.copysign(1, a) == math.copysign(1, b))
    if isinstance(a, (list, tuple)) and isinstance(b, (list, tuple)):
        return len(a) == len(b) and all(same(x, y) for x, y in zip(a, b))
    if isinstance(a, dict) and isinstance(b, dict):
        return list(a) == list(b) and all(same(a[k], b[k]) for k in a)
    if isinstance(a, (bytes, bytearray)) and isinstance(b, (bytes, bytearray)):
        return bytes(a) == bytes(b)
    return type(a) is type(b) and a == b


def norm(v):
    """observable value of a field read -> plain python data"""
    if isinstance(v, (ctypes.Array, SH.ShadowArray)):
        return [norm(x) for x in v[:]]
    if isinstance(v, ctypes.Structure) or hasattr(v, "_shadow_keys"):
        return fields_of(v)
    if hasattr(v, "_bound_obj"):  # ArrayField bound to an instance
        return [norm(x) for x in v[:]] if not isinstance(v[:], (bytes, bytearray)) else bytes(v[:])
    return v


def fields_of(o):
    real = getattr(type(o), "_real", type(o))
    return {p: norm(getattr(o, p)) for p, _ in SH.all_fields(real)}


def outcome(fn):
    try:
        return ("ok", norm(fn()))
    except Exception as e:
        return ("exc", type(e).__name__)


def check(what, r, s):
    global N
    N += 1
    if r[0] != s[0] or not same(r[1], s[1]):
        raise Mismatch("%s: real=%r shadow=%r" % (what, r, s))


CUR = [None]


def both(what, real, shadow, fn):
    check(what, outcome(lambda: fn(real)), outcome(lambda: fn(shadow)))
    p = CUR[0]
    check(what + " [store]", ("ok", norm(getattr(real, p))), ("ok", norm(getattr(shadow, p))))


def copy_into_shadow(real, sh):
    for p, ft in SH.all_fields(type(real)):
        v = getattr(real, p)
        if isinstance(v, ctypes.Array):
            tgt = getattr(sh, p) if not isinstance(getattr(sh, p), bytes) else None
            if ft._type_ is ctypes.c_char:
                sh.__dict__["$" + p[1:]] = bytes(memoryview(real).cast("B")[getattr(type(real), p).offset:getattr(type(real), p).offset + ctypes.sizeof(ft)])
            elif issubclass(ft._type_, ctypes.Structure):
                for i in range(len(v)):
                    copy_into_shadow(v[i], tgt[i])
            else:
                tgt[:] = v[:]
        elif isinstance(v, ctypes.Structure):
            copy_into_shadow(v, getattr(sh, p))
        else:
            setattr(sh, p, v)


INT_VALUES = [0, 1, -1, 127, 128, -128, -129, 255, 256, 32767, 32768, -32768, -32769, 65535, 65536, 2**31 - 1, 2**31,
              -2**31, -2**31 - 1, 2**32 - 1, 2**32, 2**63 - 1, 2**63, -2**63, -2**63 - 1, 2**64 - 1, 2**64, 10**30, True, False]
BAD_VALUES = [1.5, "x", None, b"a", [1], 1 + 2j]
FLOAT_VALUES = [0.0, -0.0, 1.5, 1e38, 3.4028235e38, 3.5e38, 1e39, -1e39, 1e-50, math.inf, -math.inf, math.nan, 1, 2**70, 10**400, True]
STR_VALUES = ["", "a", "ab", "a\x00b", "\x00", "\x7f", "\x80", "é", "\U0001f600", 'q"\\\n\t']


def exercise(cls, rnd):
    R, S = cls, SH.shadow_of(cls)
    real, sh = R.from_random(), S()
    copy_into_shadow(real, sh)
    check(cls.__name__ + " copy", ("ok", fields_of(real)), ("ok", fields_of(sh)))
    check(cls.__name__ + " to_dict", outcome(real.to_dict), outcome(sh.to_dict))
    check(cls.__name__ + " size", ("ok", real.size), ("ok", sh.size))
    for p, ft in SH.all_fields(cls):
        name = p[1:]
        tag = "%s.%s" % (cls.__name__, name)
        if not p.startswith("_"):
            continue
        CUR[0] = p
        # public read
        check(tag + " get", outcome(lambda: getattr(real, name)), outcome(lambda: getattr(sh, name)))
        is_arr = isinstance(ft, type) and issubclass(ft, ctypes.Array)
        if is_arr and ft._type_ is ctypes.c_char:
            n = ft._length_
            vals = STR_VALUES + ["z" * (n - 1), "z" * n, "z" * (n + 1), "y" * max(0, n - 2)]
            for v in rnd.sample(vals, 6) + ["longer-first"[: n - 1], "s"]:
                both(tag + " set %r" % (v,), real, sh, lambda o: (setattr(o, name, v), getattr(o, name))[1])
            for v in [b"", b"ab", b"\x80\xff", b"z" * n, b"z" * (n + 1), b"a\x00b", "str", 5]:
                with disable_message_validation():
                    both(tag + " raw %r" % (v,), real, sh, lambda o: (setattr(o, p, v), getattr(o, p))[1])
            for v in [5, None, b"a", ["a"]]:
                both(tag + " bad %r" % (v,), real, sh, lambda o: setattr(o, name, v))
        elif is_arr and issubclass(ft._type_, ctypes.Structure):
            n = ft._length_
            E, ES = ft._type_, SH.shadow_of(ft._type_)
            er, es = E.from_random(), ES()
            copy_into_shadow(er, es)
            for k in [0, n - 1, -1, -n, n, -n - 1]:
                check(tag + " elem[%d]" % k, outcome(lambda: (real.__getattribute__(name).__setitem__(k, er), getattr(real, name)[k])[1]),
                      outcome(lambda: (getattr(sh, name).__setitem__(k, es), getattr(sh, name)[k])[1]))
            check(tag + " bad elem", outcome(lambda: getattr(real, name).__setitem__(0, 5)), outcome(lambda: getattr(sh, name).__setitem__(0, 5)))
            check(tag + " whole", outcome(lambda: setattr(real, name, [er] * n)), outcome(lambda: setattr(sh, name, [es] * n)))
            check(tag + " whole short", outcome(lambda: setattr(real, name, [er] * (n - 1))), outcome(lambda: setattr(sh, name, [es] * (n - 1))))
            check(tag + " store", ("ok", norm(getattr(real, p))), ("ok", norm(getattr(sh, p))))
        elif is_arr:
            n = ft._length_
            et = ft._type_
            pool = FLOAT_VALUES if et in SH.FLOAT_TYPES else INT_VALUES
            idxs = [0, n - 1, -1, -n, n, -n - 1, n + 5]
            for _ in range(6):
                k, v = rnd.choice(idxs), rnd.choice(pool + BAD_VALUES[:3])
                both(tag + "[%d]=%r" % (k, v), real, sh, lambda o: (getattr(o, name).__setitem__(k, v), getattr(o, name)[k])[1])
                with disable_message_validation():
                    both(tag + "[%d]=%r novalid" % (k, v), real, sh, lambda o: (getattr(o, name).__setitem__(k, v), getattr(o, name)[k])[1])
            for _ in range(4):
                a, b = sorted((rnd.randrange(-1, n + 2), rnd.randrange(-1, n + 2)))
                ln = len(range(*slice(a, b).indices(n))) + rnd.choice([0, 0, 1, -1])
                vals = [rnd.choice(pool) for _ in range(max(0, ln))]
                both(tag + "[%d:%d]=%r" % (a, b, vals), real, sh, lambda o: (getattr(o, name).__setitem__(slice(a, b), vals), getattr(o, name)[:])[1])
            whole = [rnd.choice(pool[:8]) for _ in range(n)] if n <= 300 else None
            if whole is not None:
                both(tag + " whole", real, sh, lambda o: setattr(o, name, whole))
                both(tag + " whole+1", real, sh, lambda o: setattr(o, name, whole + [0]))
                if et is ctypes.c_ubyte:
                    bs = bytes(rnd.randrange(256) for _ in range(n))
                    both(tag + " bytes", real, sh, lambda o: (setattr(o, name, bs), getattr(o, name)[:])[1])
                    both(tag + " bytes short", real, sh, lambda o: setattr(o, name, bs[:-1]))
                    both(tag + " elem bytes", real, sh, lambda o: (getattr(o, name).__setitem__(0, b"\x09"), getattr(o, name)[0])[1])
        elif isinstance(ft, type) and issubclass(ft, ctypes.Structure):
            E, ES = ft, SH.shadow_of(ft)
            er, es = E.from_random(), ES()
            copy_into_shadow(er, es)
            check(tag + " struct set", outcome(lambda: setattr(real, name, er)), outcome(lambda: setattr(sh, name, es)))
            check(tag + " struct bad", outcome(lambda: setattr(real, name, 5)), outcome(lambda: setattr(sh, name, 5)))
            check(tag + " store", ("ok", norm(getattr(real, p))), ("ok", norm(getattr(sh, p))))
        elif ft is ctypes.c_char:
            for v in ["a", "", "\x00", "ab", "\x80", 5, b"a", None]:
                both(tag + " set %r" % (v,), real, sh, lambda o: (setattr(o, name, v), getattr(o, name))[1])
        elif ft in SH.FLOAT_TYPES:
            for v in FLOAT_VALUES + BAD_VALUES[1:4]:
                both(tag + " set %r" % (v,), real, sh, lambda o: (setattr(o, name, v), getattr(o, name))[1])
                with disable_message_validation():
                    both(tag + " raw %r" % (v,), real, sh, lambda o: (setattr(o, name, v), getattr(o, name))[1])
        else:
            for v in INT_VALUES + BAD_VALUES:
                both(tag + " set %r" % (v,), real, sh, lambda o: (setattr(o, name, v), getattr(o, name))[1])
                with disable_message_validation():
                    both(tag + " raw %r" % (v,), real, sh, lambda o: (setattr(o, name, v), getattr(o, name))[1])
    check(cls.__name__ + " store after", ("ok", fields_of(real)), ("ok", fields_of(sh)))
    check(cls.__name__ + " to_dict after", outcome(real.to_dict), outcome(sh.to_dict))
    d = real.to_dict()
    check(cls.__name__ + " from_dict", outcome(lambda: R.from_dict(dict(d)).to_dict()), outcome(lambda: S.from_dict(dict(d)).to_dict()))
    r2, s2 = R.from_buffer_copy(real), S.from_buffer_copy(sh)
    check(cls.__name__ + " copy eq", ("ok", r2 == real), ("ok", s2 == sh))


def classes(full=False):
    """both headers, every class of core_defs, and a deterministic third of tests/test_msg_defs/test_defs.py
    (all of it with full=True); classes larger than 4 KiB only in the full run, except TIMING_MESSAGE."""
    out = [MessageHeader, TimeCodeMessageHeader]
    seen = set()
    td = importlib.import_module("test_msg_defs.test_defs")
    for mod in (cd, td):
        k = 0
        for name, v in vars(mod).items():
            if isinstance(v, type) and issubclass(v, MessageBase) and v.__module__ == mod.__name__ and name not in seen:
                seen.add(name)
                k += 1
                big = ctypes.sizeof(v) > 4096
                if mod is td and not full and (big or (k % 3 and "VALIDATOR" not in name)):
                    continue
                out.append(v)
    return out


def main():
    rnd = random.Random(int(os.environ.get("VERIF_SEED", "0") or 0) + 5)
    random.seed(rnd.random())
    only = [a for a in sys.argv[1:] if a != "--full"]
    for c in classes("--full" in sys.argv):
        if only and c.__name__ not in only:
            continue
        exercise(c, rnd)
    print("VALIDATED %d" % N)


if __name__ == "__main__":
    try:
        main()
    except Mismatch as e:
        print("MISMATCH", e)
        sys.exit(1)
