"""Validates the natural-C-layout reference model c_layout (harness/c11_align.py, also used by C04) against
ctypes.sizeof (through the repository's own Parser.get_ctype_cls) and against gcc (sizeof/_Alignof/offsetof of generated
structs).  Deterministic from VERIF_SEED.  Prints "VALIDATED <n>"; exits 1 on a mismatch."""
import os
import pathlib
import random
import subprocess
import sys
import tempfile

import pyrtma.parser as P
from harness.c11_align import c_layout, NATIVE

CT = {1: "uint8_t", 2: "int16_t", 4: "float", 8: "double"}


def rand_fields(rnd, depth=0):
    out = []
    for k in range(rnd.randrange(1, 6)):
        w = rnd.choice([1, 2, 4, 8])
        kind = rnd.choice("nnas") if depth < 2 else "n"
        nat = P.supported_types[NATIVE[w]]
        if kind == "n":
            tobj, tname = nat, NATIVE[w]
        elif kind == "a":
            tobj, tname = P.TypeAlias("AL", NATIVE[w], nat, pathlib.Path("x")), "AL"
        else:
            inner = P.SDF("", "", "S%d_%d" % (depth, k), pathlib.Path("x"))
            inner.fields = rand_fields(rnd, depth + 1)
            inner.alignment = c_layout(inner.fields)[1]
            # a nested struct is only well-formed for the parser once explicitly padded: pad it with the real code
            q = P.Parser.__new__(P.Parser)
            q.auto_pad = True
            q.warning = lambda m: None
            q.get_ctype_size = lambda s: c_layout(s.fields)[0]
            q.check_alignment(inner)
            tobj, tname = inner, inner.name
        f = P.Field("f%d" % k, tname, tobj)
        if rnd.random() < 0.5:
            f.length = rnd.randrange(1, 9)
        out.append(f)
    return out


def c_decl(fields, name, decls):
    lines = []
    for f in fields:
        t = f.type_obj
        if isinstance(t, P.TypeAlias):
            t = t.type_obj
        if isinstance(t, P.NativeType):
            ct = CT[t.size]
        else:
            if t.name + "_" + name not in decls:
                decls[t.name + "_" + name] = c_decl(t.fields, t.name + "_" + name, decls)
            ct = "struct " + t.name + "_" + name
        lines.append("  %s %s%s;" % (ct, f.name, "[%d]" % f.length if f.length else ""))
    return "struct %s {\n%s\n};" % (name, "\n".join(lines))


def main():
    rnd = random.Random(int(os.environ.get("VERIF_SEED", "0") or 0) + 23)
    n = 0
    cases = []
    for i in range(120):
        fields = rand_fields(rnd)
        size, al, offs = c_layout(fields)
        s = P.SDF("", "", "T%d" % i, pathlib.Path("x"))
        s.fields = fields
        q = P.Parser.__new__(P.Parser)
        cs = q.get_ctype_size(s)   # the repository's ctypes construction
        assert cs == size, ("ctypes", i, cs, size)
        n += 1
        cases.append((i, fields, size, al, offs))
    # gcc
    decls = {}
    body = []
    for i, fields, size, al, offs in cases[:60]:
        decls["T%d" % i] = c_decl(fields, "T%d" % i, decls)
        body.append('printf("%%d %%zu %%zu", %d, sizeof(struct T%d), _Alignof(struct T%d));' % (i, i, i))
        for f in fields:
            body.append('printf(" %%zu", offsetof(struct T%d, %s));' % (i, f.name))
        body.append('printf("\\n");')
    src = "#include <stdio.h>\n#include <stddef.h>\n#include <stdint.h>\n" + "\n".join(decls.values()) + "\nint main(){\n" + "\n".join(body) + "\nreturn 0;}\n"
    with tempfile.TemporaryDirectory() as d:
        open(os.path.join(d, "t.c"), "w").write(src)
        subprocess.run(["gcc", "-o", os.path.join(d, "t"), os.path.join(d, "t.c")], check=True, capture_output=True)
        out = subprocess.run([os.path.join(d, "t")], check=True, capture_output=True, text=True).stdout
    for line in out.splitlines():
        v = [int(x) for x in line.split()]
        i, fields, size, al, offs = cases[v[0]]
        assert v[1] == size and v[2] == al and v[3:] == offs, ("gcc", i, v, size, al, offs)
        n += 1
    print("VALIDATED %d" % n)


if __name__ == "__main__":
    try:
        main()
    except AssertionError as e:
        print("MISMATCH", e)
        sys.exit(1)
