"""Builds a pyrtma Client (the real class) without a socket, in the shadow or the real world (see mgrworld).

shadow: pyrtma.client.cd -> shadow classes, pyrtma.client.set -> LinearSet (so set(msg_list) keeps symbolic ids symbolic),
        pyrtma.client.ctypes.sizeof understands shadows, select/print/warn/time.sleep are stubs.
real:   unmodified module, except select (no file descriptor behind the recorders) and warn/print/sleep.
"""
import os

import pyrtma.client as C
from pyrtma import core_defs as cd
from pyrtma.header import MessageHeader, TimeCodeMessageHeader

from . import shadow as SH
from .standins import LinearSet, NullLogger

BACKEND = os.environ.get("VERIF_BACKEND", "shadow")
SHADOW = BACKEND == "shadow"
ALL = cd.ALL_MESSAGE_TYPES
STUBS = []


class SelShim:
    """select.select stand-in for the client: the socket is always ready"""

    def select(self, r, w, x, t=None):
        return (list(r), list(w), [])


class TimeShim:
    """deterministic clock: every reading advances it by `tick` seconds (a harness may set tick so that a caller's timeout
    is, or is not, used up between two readings)"""

    def __init__(self):
        self.t = 0.0
        self.tick = 0.001

    def perf_counter(self):
        self.t += self.tick
        return self.t

    def sleep(self, s):
        pass


C.select = SelShim()
C.print = lambda *a, **k: None
C.warn = lambda *a, **k: None
C.time = TimeShim()
if SHADOW:
    C.cd = SH.ModProxy(cd)
    C.ctypes = SH.CtypesShim()
    C.set = LinearSet
    STUBS += [
        "pyrtma.client.cd -> module proxy handing out ctypes-free shadow classes",
        "pyrtma.client.set -> LinearSet (hash-free; iteration order selectable fwd/rev/rot)",
        "pyrtma.client.ctypes.sizeof -> sizeof of the real class behind a shadow",
    ]
STUBS += ["pyrtma.client.select.select -> socket always ready", "pyrtma.client.warn / print -> no-op",
          "pyrtma.client.time -> deterministic increasing clock, sleep is a no-op",
          "Client.send_message / _sendall / sockets -> recorders where the harness says so"]


def header_class(timecode=False):
    real = TimeCodeMessageHeader if timecode else MessageHeader
    return SH.shadow_of(real) if SHADOW else real


class _NoSocket:
    def __getattr__(self, k):
        raise OSError("no socket behind this client: the harness installs its own")


class _SocketModuleForInit:
    def socket(self, *a, **k):
        return _NoSocket()

    def __getattr__(self, k):
        import socket as _s
        return getattr(_s, k)


def _real_init(c, timecode):
    """run the repository's own Client.__init__ (socket, logger, header class stubbed) so that every attribute the current
    source initialises exists with its real initial value; the modelled fields are overwritten by new_client()"""
    saved = (C.socket, C.RTMALogger, C.get_header_cls)
    C.socket = _SocketModuleForInit()
    C.RTMALogger = lambda *a, **k: NullLogger()
    C.get_header_cls = lambda *a, **k: header_class(timecode)
    try:
        with SH.NoTracing():
            C.Client.__init__(c, 0, 0, timecode, "")
    finally:
        C.socket, C.RTMALogger, C.get_header_cls = saved


def new_client(module_id=10, host_id=0, name="", timecode=False):
    c = object.__new__(C.Client)
    _real_init(c, timecode)
    c._module_id = module_id
    c._host_id = host_id
    c._msg_count = 0
    c._server = ("", -1)
    c._connected = True
    c._header_cls = header_class(timecode)
    # c._recv_buffer keeps what the real __init__ allocated
    c._sub_all = False
    c._subscribed_types = LinearSet() if SHADOW else set()
    c._paused_types = LinearSet() if SHADOW else set()
    c._dynamic_id = module_id == 0
    c._sock = None
    c._name = name
    c._logger = NullLogger()
    return c


def mkset(items=()):
    return LinearSet(items) if SHADOW else set(items)
