"""Coroutine twins of the data logger's thread code (DESIGN.md 2.5).

At check time the source of pyrtma.data_logger.data_collection.DataCollection is parsed and every method that
(transitively) calls .set()/.clear()/.is_set()/.wait() on self.write_to_disk / self.write_finished is rewritten into a
generator: each such call becomes `(yield (event_name, op, *args))`, each call of a rewritten method becomes `yield from`.
Nothing else in the method bodies changes.  The twins are regenerated from the current source on every run; a method that
no longer has this shape makes build() raise (a harness error, never a verdict).

A small scheduler owns the two event flags and runs the recording "thread" and the writer "thread" as generators; wherever
both are enabled the next schedule bit decides.  Atomic step = perform one Event operation, then run to the next one.
"""
import ast
import inspect
import textwrap

import pyrtma.data_logger.data_collection as DC

EVENTS = {"write_to_disk", "write_finished"}
OPS = {"set", "clear", "is_set", "wait"}


def _is_event_call(c):
    f = c.func
    return (isinstance(f, ast.Attribute) and f.attr in OPS and isinstance(f.value, ast.Attribute) and f.value.attr in EVENTS
            and isinstance(f.value.value, ast.Name) and f.value.value.id == "self")


class _Rewriter(ast.NodeTransformer):
    def __init__(self, gens):
        self.gens = gens

    def visit_Call(self, node):
        self.generic_visit(node)
        f = node.func
        if _is_event_call(node):
            return ast.Yield(value=ast.Tuple(elts=[ast.Constant(f.value.attr), ast.Constant(f.attr)] + node.args, ctx=ast.Load()))
        if isinstance(f, ast.Attribute) and isinstance(f.value, ast.Name) and f.value.id == "self" and f.attr in self.gens:
            node.func.attr = "co_" + f.attr
            return ast.YieldFrom(value=node)
        return node

    def visit_Lambda(self, node):
        return node


def build():
    """returns ({method name: generator function}, sorted list of rewritten method names, number of event operations found)"""
    src = textwrap.dedent(inspect.getsource(DC.DataCollection))
    cls = ast.parse(src).body[0]
    methods = {n.name: n for n in cls.body if isinstance(n, ast.FunctionDef)}
    gens = set()
    changed = True
    while changed:
        changed = False
        for name, fn in methods.items():
            if name in gens:
                continue
            for c in ast.walk(fn):
                if isinstance(c, ast.Call) and (_is_event_call(c) or (
                        isinstance(c.func, ast.Attribute) and isinstance(c.func.value, ast.Name) and c.func.value.id == "self"
                        and c.func.attr in gens)):
                    gens.add(name)
                    changed = True
                    break
    nops = 0
    for name in gens:
        for c in ast.walk(methods[name]):
            if isinstance(c, ast.Call) and _is_event_call(c):
                nops += 1
    required = {"update", "trigger_write", "stop", "write"}
    if not required <= gens:
        raise RuntimeError("cotwin: expected the methods %s to use the write_to_disk/write_finished events, found %s" % (sorted(required), sorted(gens)))
    # any other use of the events (passing them around, aliasing) is outside what the twin can follow
    for name, fn in methods.items():
        for a in ast.walk(fn):
            if isinstance(a, ast.Attribute) and a.attr in EVENTS and name != "__init__":
                ok = False
                for c in ast.walk(fn):
                    if isinstance(c, ast.Call) and _is_event_call(c) and c.func.value is a:
                        ok = True
                if not ok:
                    raise RuntimeError("cotwin: %s uses self.%s other than through set/clear/is_set/wait" % (name, a.attr))
    body = []
    for name in sorted(gens):
        fn = _Rewriter(gens).visit(methods[name])
        fn.name = "co_" + name
        body.append(fn)
    mod = ast.Module(body=body, type_ignores=[])
    ast.fix_missing_locations(mod)
    ns = dict(DC.__dict__)
    exec(compile(mod, "<cotwin:data_collection>", "exec"), ns)
    return {n: ns["co_" + n] for n in gens}, sorted(gens), nops


class Flag:
    def __init__(self):
        self.flag = False


class Thread:
    def __init__(self, gen):
        self.gen = gen
        self.pending = None
        self.done = False
        self.started = False

    def enabled(self, c, closing):
        if self.done:
            return False
        p = self.pending
        if p is not None and p[1] == "wait":
            return getattr(c, p[0]).flag or closing
        return True

    def step(self, c):
        try:
            if not self.started:
                self.started = True
                self.pending = next(self.gen)
                return
            p = self.pending
            ev, op = getattr(c, p[0]), p[1]
            if op == "set":
                ev.flag = True
                r = None
            elif op == "clear":
                ev.flag = False
                r = None
            else:               # is_set, or wait (returns the flag; a timed wait may also time out with False)
                r = ev.flag
            self.pending = self.gen.send(r)
        except StopIteration:
            self.done = True
