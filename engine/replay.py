"""Concrete re-execution of a harness call (no CrossHair tracing).

usage: python -m engine.replay <harness_module> <call text>      env: VERIF_BACKEND=shadow|real, VERIF_SHARD=<json>
VERIF_BACKEND=real runs the same scenario against the unmodified pyrtma modules with real ctypes classes and real
containers: that is the replay that decides whether a solver counterexample is a violation of the real code.
Prints "REPLAY <json>": {"holds": bool, "exc": text|null}
"""
import importlib
import json
import math
import os
import sys
import traceback


def main():
    sys.path.insert(0, os.path.dirname(os.path.dirname(os.path.abspath(__file__))))
    modname, call = sys.argv[1], sys.argv[2]
    mod = importlib.import_module(modname)
    ns = dict(vars(mod))
    ns.update(nan=math.nan, inf=math.inf, float=float)
    out = {"holds": None, "exc": None}
    try:
        r = eval(call, ns)
        out["holds"] = bool(r)
        out["returned"] = repr(r)[:300]
    except BaseException as e:  # an escaping exception is a failed post-condition too
        out["holds"] = False
        out["exc"] = "%s: %s" % (type(e).__name__, e)
        out["traceback"] = traceback.format_exc()[-2500:]
    print("REPLAY " + json.dumps(out), flush=True)


if __name__ == "__main__":
    main()
