"""Differential test of the hash-free containers against dict / set / collections.Counter / defaultdict.
Deterministic from VERIF_SEED.  Prints "VALIDATED <n>" (number of compared operations) or exits 1."""
import os
import random
import sys
from collections import Counter, defaultdict

from engine.standins import LinearSet, LinearDict, LinearCounter


def main():
    rnd = random.Random(int(os.environ.get("VERIF_SEED", "0") or 0) + 17)
    n = 0
    for trial in range(300):
        keys = [rnd.randrange(-3, 4) for _ in range(5)] + [2147483647]
        # sets
        a, b = set(), LinearSet()
        for _ in range(25):
            op = rnd.randrange(8)
            k = rnd.choice(keys)
            other = [rnd.choice(keys) for _ in range(rnd.randrange(3))]
            if op == 0:
                a.add(k); b.add(k)
            elif op == 1:
                a.discard(k); b.discard(k)
            elif op == 2:
                a |= set(other); b |= LinearSet(other)
            elif op == 3:
                a -= set(other); b -= other
            elif op == 4 and rnd.random() < 0.2:
                a.clear(); b.clear()
            elif op == 7:
                o2 = set(other)
                assert sorted(a & o2) == sorted(b & LinearSet(other)) and sorted(a ^ o2) == sorted(b ^ other)
                assert sorted(a.union(o2)) == sorted(b.union(other)) and sorted(a.difference(o2)) == sorted(b.difference(other))
                assert a.issubset(o2) == b.issubset(other) and a.issuperset(o2) == b.issuperset(other) and a.isdisjoint(o2) == b.isdisjoint(other)
                assert (a <= o2) == (b <= other) and (a >= o2) == (b >= other) and sorted(o2 - a) == sorted(other - b if False else (LinearSet(other) - b))
            elif op == 5:
                assert (k in a) == (k in b)
            elif op == 6:
                assert set(b.copy()) == a
            assert len(a) == len(b) and sorted(a) == sorted(b) and bool(a) == bool(b), (a, b)
            assert (b == a) and (LinearSet(a) == b)
            n += 1
        # defaultdict(set)-like and Counter-like
        d, e = defaultdict(set), LinearDict(LinearSet)
        c, f = Counter(), LinearCounter()
        p, q = {}, LinearDict()
        for _ in range(25):
            k = rnd.choice(keys)
            v = rnd.randrange(5)
            op = rnd.randrange(7)
            if op == 0:
                d[k].add(v); e[k].add(v)
            elif op == 1:
                d[k].discard(v); e[k].discard(v)
            elif op == 2:
                c[k] += v; f[k] += v
            elif op == 3:
                assert c[k] == f[k]
            elif op == 4:
                p[k] = v; q[k] = v
            elif op == 5:
                assert p.get(k) == q.get(k) and (k in p) == (k in q)
                if k in p:
                    del p[k]; del q[k]
                else:
                    try:
                        q[k]
                        raise AssertionError("KeyError expected")
                    except KeyError:
                        pass
            elif op == 6 and rnd.random() < 0.2:
                c.clear(); f.clear()
            assert sorted(d) == sorted(e.keys()) and all(sorted(d[x]) == sorted(e[x]) for x in d)
            assert sorted(c.items()) == sorted(f.items()) and len(c) == len(f)
            assert sorted(p.items()) == sorted(q.items()) and list(p) == list(q) and list(p.values()) == q.values()
            n += 1
    print("VALIDATED %d" % n)


if __name__ == "__main__":
    try:
        main()
    except AssertionError as ex:
        import traceback
        traceback.print_exc()
        sys.exit(1)
