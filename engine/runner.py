"""Orchestrates the obligations of one property: shards -> worker processes -> verdicts -> replay -> evidence.

Verdict vocabulary per shard analysis (CrossHair MessageType names):
  CONFIRMED        whole path tree exhausted, post-condition held on every feasible path   -> discharged
  POST_FAIL/EXEC_ERR  concrete counterexample -> replayed (concrete shadow run, then REAL backend run)
                   reproduces on the real code  -> VIOLATION (exit 1)   [KNOWN-FINDING if listed in known_findings.json]
                   does not reproduce           -> harness error (exit 3), no VIOLATION line
  anything else    INCONCLUSIVE (printed, counted in evidence, never reported as success of that obligation)
Reach twins must come back POST_FAIL; a twin that is CONFIRMED / PRE_UNSAT marks the obligation vacuous.
"""
import concurrent.futures as cf
import hashlib
import importlib
import inspect
import json
import os
import shutil
import subprocess
import sys
import time

ROOT = os.path.dirname(os.path.dirname(os.path.abspath(__file__)))
PY = os.path.join(ROOT, ".venv", "bin", "python")
if not os.path.exists(PY):  # a snapshot of /verif (vp run): the venv lives in /verif
    PY = "/verif/.venv/bin/python"
NCPU = int(os.environ.get("VERIF_JOBS", "0") or 0) or (os.cpu_count() or 4)
# development aid (tools_mutate.py, seeded-change runs): write evidence / replay files elsewhere so that a run against a
# scratch checkout does not overwrite the evidence of /repo itself.  The registered commands never set these.
EVDIR = os.environ.get("VERIF_EVIDENCE_DIR") or os.path.join(ROOT, "evidence")
RPDIR = os.environ.get("VERIF_REPLAY_DIR") or os.path.join(ROOT, "replay")
EXIT_OK, EXIT_VIOLATION, EXIT_HARNESS = 0, 1, 3


class Obligation:
    def __init__(self, name, module, func, shards=None, cond_timeout=60, path_timeout=20, flags=(), reach=None,
                 reach_shards=None, encoded=(), bounds="", symbolic="", kind="crosshair", expect="CONFIRMED",
                 script_args=None):
        self.name = name
        self.module = module
        self.func = func
        self.shards = shards if shards is not None else [{}]
        self.cond_timeout = cond_timeout
        self.path_timeout = path_timeout
        self.flags = tuple(flags)
        self.reach = reach
        self.reach_shards = reach_shards
        self.encoded = list(encoded)
        self.bounds = bounds
        self.symbolic = symbolic
        self.kind = kind  # crosshair | script
        self.expect = expect
        self.script_args = script_args or []


def _env(extra=None):
    e = dict(os.environ)
    e["PYTHONPATH"] = ROOT + os.pathsep + e.get("PYTHONPATH", "")
    if e.get("VERIF_REPO"):
        # analyse another checkout of pyrtma (a scratch worktree with a seeded change) instead of /repo: its src comes first
        e["PYTHONPATH"] = os.path.join(e["VERIF_REPO"], "src") + os.pathsep + e["PYTHONPATH"]
    e.setdefault("PYTHONHASHSEED", "0")
    e.pop("VERIF_SHARD", None)
    if extra:
        e.update(extra)
    return e


class _Worker:
    """persistent worker process for one (module, timeouts, flags) group; jobs are fed one at a time"""

    def __init__(self, key):
        self.key = key
        self.p = None

    def start(self):
        module, ct, pt, flags = self.key
        self.p = subprocess.Popen([PY, "-m", "engine.worker", module, str(ct), str(pt), *flags], stdin=subprocess.PIPE,
                                  stdout=subprocess.PIPE, stderr=subprocess.DEVNULL, text=True, cwd=ROOT, env=_env())

    def run(self, job):
        import select as _select
        if self.p is None or self.p.poll() is not None:
            self.start()
        ct = self.key[1]
        t0 = time.time()
        budget = ct * 1.5 + 45
        try:
            self.p.stdin.write(json.dumps({"id": job["id"], "func": job["func"], "shard": job["shard"]}) + "\n")
            self.p.stdin.flush()
            while True:
                left = budget - (time.time() - t0)
                if left <= 0:
                    raise TimeoutError()
                r, _, _ = _select.select([self.p.stdout], [], [], left)
                if not r:
                    raise TimeoutError()
                line = self.p.stdout.readline()
                if line == "":
                    raise EOFError()
                if line.startswith("RESULT "):
                    return json.loads(line[7:])
        except TimeoutError:
            self.stop()
            return {"id": job["id"], "state": "CANNOT_CONFIRM", "message": "worker exceeded its wall budget (%.0fs) and was killed" % budget,
                    "paths": 0, "solver_calls": 0, "solver_s": 0.0, "wall_s": time.time() - t0}
        except (EOFError, BrokenPipeError, OSError):
            self.stop()
            return {"id": job["id"], "state": "WORKER_DIED", "message": "worker process died", "paths": 0,
                    "solver_calls": 0, "solver_s": 0.0, "wall_s": time.time() - t0}

    def stop(self):
        if self.p is not None:
            try:
                self.p.kill()
                self.p.wait(timeout=10)
            except Exception:
                pass
            self.p = None


def _run_queue(jobs_by_key):
    """dynamic scheduling: NCPU threads, each owning one worker process at a time, pull jobs from a shared queue"""
    import queue
    import threading
    q = queue.Queue()
    # longest-budget groups first (a crude longest-processing-time-first rule: the heavy obligations start early)
    for key, js in sorted(jobs_by_key.items(), key=lambda kv: -kv[0][1]):
        for j in js:
            q.put((key, j))
    out = {}
    lock = threading.Lock()

    def loop():
        w = None
        while True:
            try:
                key, j = q.get_nowait()
            except queue.Empty:
                break
            if w is None or w.key != key:
                if w is not None:
                    w.stop()
                w = _Worker(key)
            r = w.run(j)
            with lock:
                out[r["id"]] = r
        if w is not None:
            w.stop()

    n = sum(len(v) for v in jobs_by_key.values())
    ts = [threading.Thread(target=loop) for _ in range(max(1, min(NCPU, n)))]
    for t in ts:
        t.start()
    for t in ts:
        t.join()
    return out


def _run_script(ob, job):
    t0 = time.time()
    try:
        p = subprocess.run([PY, "-m", ob.module, *ob.script_args, json.dumps(job.get("shard", {}))], capture_output=True,
                           text=True, timeout=ob.cond_timeout + 60, cwd=ROOT, env=_env())
        for line in p.stdout.splitlines():
            if line.startswith("RESULT "):
                r = json.loads(line[7:])
                r["id"] = job["id"]
                r.setdefault("wall_s", time.time() - t0)
                return r
        return {"id": job["id"], "state": "WORKER_DIED", "message": (p.stdout + p.stderr)[-1500:], "wall_s": time.time() - t0}
    except subprocess.TimeoutExpired:
        return {"id": job["id"], "state": "CANNOT_CONFIRM", "message": "script timed out", "wall_s": time.time() - t0}


def replay(module, call, shard, backend):
    try:
        p = subprocess.run([PY, "-m", "engine.replay", module, call], capture_output=True, text=True, timeout=300,
                           cwd=ROOT, env=_env({"VERIF_BACKEND": backend, "VERIF_SHARD": json.dumps(shard)}))
    except subprocess.TimeoutExpired:
        return {"holds": None, "exc": "replay timed out"}
    for line in p.stdout.splitlines():
        if line.startswith("REPLAY "):
            return json.loads(line[7:])
    return {"holds": None, "exc": "replay crashed: " + (p.stdout + p.stderr)[-1500:]}


def source_digest(names):
    """qualified names -> short sha256 of their current source (the encoding is regenerated from these)"""
    out = {}
    for q in names:
        try:
            modname, _, attr = q.partition(":")
            obj = importlib.import_module(modname)
            for part in attr.split("."):
                obj = getattr(obj, part)
            if isinstance(obj, property):
                obj = obj.fget
            obj = inspect.unwrap(obj)
            src = inspect.getsource(obj)
            out[q] = hashlib.sha256(src.encode()).hexdigest()[:12]
        except Exception as e:  # pragma: no cover
            out[q] = "unavailable: %s" % type(e).__name__
    return out


STANDIN_CLASSES = {"FakeThread", "NullLogger", "Flag", "FakeConn", "LinearSet", "LinearDict", "LinearCounter", "ScriptSock", "_Blob",
                   "PayloadBuf", "ViewStandin", "PayloadSlice", "ModProxy", "CtypesShim", "SelShim", "TimeShim", "Capture", "FakeYAML",
                   "JsonShim", "CtlEvent", "_NoSocket", "_SocketModuleForInit", "_LoggingShim", "NoSubprocess", "_Threading", "Thread",
                   "Controller", "ShadowArray", "AssocArray", "_TextwrapShim", "World", "RecSock"}


def _raised_in_harness(r):
    """True when the innermost frame of an escaped exception lies in /verif (harness or engine code) and the exception is not
    the oracle's own PropertyViolated"""
    import re as _re
    if "PropertyViolated" in (r.get("message") or ""):
        return False
    m = _re.search(r"(?:AttributeError|TypeError)[^\n]*'(\w+)' object", r.get("message") or "")
    if m and m.group(1) in STANDIN_CLASSES:
        return True     # the code under analysis asked a stand-in for something the stand-in does not model
    files = _re.findall(r'File "([^"]+)", line', r.get("traceback") or "")
    return bool(files) and os.path.abspath(files[-1]).startswith(ROOT + os.sep)


def load_known(pid):
    path = os.path.join(ROOT, "known_findings.json")
    if not os.path.exists(path):
        return []
    with open(path) as f:
        data = json.load(f)
    return [k for k in data.get("open", []) if k.get("property") == pid]


def run_property(pid, tier, obligations, validators=(), assumptions=(), explanation="", stubs=()):
    t_start = time.time()
    seed = int(os.environ.get("VERIF_SEED", "0") or 0)
    known = load_known(pid)
    known_ids = [k["id"] for k in known]
    harness_errors = []
    violations = []
    inconclusive = []
    lines = []

    # 0. stand-in validation (translator test)
    traces = 0
    for v in validators:
        try:
            p = subprocess.run([PY, "-m", v], capture_output=True, text=True, timeout=900, cwd=ROOT, env=_env())
        except subprocess.TimeoutExpired:
            harness_errors.append("validator %s timed out" % v)
            continue
        ok = False
        for line in p.stdout.splitlines():
            if line.startswith("VALIDATED "):
                traces += int(line.split()[1])
                ok = True
        if p.returncode != 0 or not ok:
            harness_errors.append("validator %s failed: %s" % (v, (p.stdout + p.stderr)[-1500:]))

    # 1. known findings: does each witness still reproduce on the real code?
    kf_lines = []
    for k in known:
        w = k["witness"]
        r = replay(w["module"], w["call"], w.get("shard", {}), "real")
        if r.get("holds") is False:
            kf_lines.append("KNOWN-FINDING: property=%s %s" % (pid, k["what"]))
        else:
            lines.append("NOTE known finding %s no longer reproduces on this tree (%s)" % (k["id"], r))

    # 2. jobs
    jobs = []
    jid = 0
    for oi, ob in enumerate(obligations):
        for si, shd in enumerate(ob.shards):
            s = dict(shd)
            s["known"] = known_ids
            jobs.append({"id": jid, "ob": oi, "si": si, "func": ob.func, "shard": s, "twin": False})
            jid += 1
        if ob.reach:
            rs = ob.reach_shards if ob.reach_shards is not None else ob.shards[:1]
            for si, shd in enumerate(rs):
                s = dict(shd)
                s["known"] = known_ids
                jobs.append({"id": jid, "ob": oi, "si": si, "func": ob.reach, "shard": s, "twin": True})
                jid += 1
    results = {}
    groups = {}
    script_jobs = []
    for j in jobs:
        ob = obligations[j["ob"]]
        if ob.kind == "script":
            script_jobs.append(j)
        else:
            groups.setdefault((ob.module, ob.cond_timeout, ob.path_timeout, ob.flags), []).append(j)
    with cf.ThreadPoolExecutor(max_workers=max(1, min(4, NCPU))) as ex:
        sfuts = [ex.submit(_run_script, obligations[j["ob"]], j) for j in script_jobs]
        results.update(_run_queue(groups))
        for f in sfuts:
            r = f.result()
            results[r["id"]] = r

    # 3. classify
    per_ob = [dict(name=ob.name, shards=len(ob.shards), confirmed=0, failed=0, inconclusive=0, paths=0, solver_calls=0,
                   solver_s=0.0, cpu_s=0.0, twins=0, twins_refuted=0) for ob in obligations]
    replayed = 0
    samples = []
    nontrivial = set()
    rdir = os.path.join(RPDIR, pid)
    shutil.rmtree(rdir, ignore_errors=True)
    cex = []
    for j in jobs:
        ob = obligations[j["ob"]]
        r = results[j["id"]]
        st = per_ob[j["ob"]]
        state = r.get("state")
        st["paths"] += int(r.get("paths", 0) or 0)
        st["solver_calls"] += int(r.get("solver_calls", 0) or 0)
        st["solver_s"] += float(r.get("solver_s", 0) or 0)
        st["cpu_s"] += float(r.get("wall_s", 0) or 0)
        if j["twin"]:
            st["twins"] += 1
            if state in ("POST_FAIL", "EXEC_ERR"):
                st["twins_refuted"] += 1
            else:
                inconclusive.append("%s: reach twin %s shard %s came back %s (vacuous or unreached)" % (ob.name, ob.reach, j["si"], state))
            continue
        if len(samples) < 6 or (state != "CONFIRMED" and len(samples) < 12):
            samples.append({"obligation": ob.name, "shard": j["shard"], "state": state, "paths": r.get("paths"),
                            "message": (r.get("message") or "")[:200]})
        if state == "CONFIRMED":
            st["confirmed"] += 1
            if int(r.get("paths", 0) or 0) > 1 or ob.kind == "script":
                nontrivial.add((ob.name, json.dumps(j["shard"], sort_keys=True)))
        elif state == "EXEC_ERR" and _raised_in_harness(r):
            # an exception that escaped from the harness's own code (not from the code under analysis, not an oracle verdict)
            # says something about the harness, never about pyrtma
            st["inconclusive"] += 1
            harness_errors.append("%s shard %s: exception raised by harness code: %s %s" % (ob.name, j["shard"], (r.get("message") or "")[:200], r.get("traceback", "")[-500:]))
        elif state in ("POST_FAIL", "EXEC_ERR") and (r.get("call") or ob.kind == "script"):
            st["failed"] += 1
            cex.append((j, ob, r))
        elif state in ("HARNESS_ERROR", "WORKER_DIED", "NO_MESSAGE"):
            st["inconclusive"] += 1
            harness_errors.append("%s shard %s: %s %s %s" % (ob.name, j["shard"], state, r.get("message"), r.get("traceback", "")[-600:]))
        else:
            st["inconclusive"] += 1
            inconclusive.append("%s shard %s: %s %s" % (ob.name, json.dumps(j["shard"]), state, (r.get("message") or "")[:160]))

    # 3b. replay counterexamples (at most MAX_REPLAY per obligation, in parallel); the rest are listed unreplayed
    MAX_REPLAY = 3
    chosen, skipped, per = [], 0, {}
    for j, ob, r in cex:
        if per.get(ob.name, 0) < MAX_REPLAY:
            per[ob.name] = per.get(ob.name, 0) + 1
            chosen.append((j, ob, r))
        else:
            skipped += 1

    def _rp(item):
        j, ob, r = item
        if ob.kind == "script":
            return ({"holds": False}, {"holds": False if r.get("replayed_real") else None, "exc": r.get("message")})
        return (replay(ob.module, r.get("call"), j["shard"], "shadow"), replay(ob.module, r.get("call"), j["shard"], "real"))

    with cf.ThreadPoolExecutor(max_workers=NCPU) as ex:
        outs = list(ex.map(_rp, chosen))
    for n, ((j, ob, r), (shadow, real)) in enumerate(zip(chosen, outs)):
        replayed += 1
        call = r.get("call")
        os.makedirs(rdir, exist_ok=True)
        path = os.path.join(rdir, "%d.json" % n)
        with open(path, "w") as f:
            json.dump({"property": pid, "obligation": ob.name, "module": ob.module, "func": ob.func, "call": call,
                       "shard": j["shard"], "crosshair": r, "replay_shadow": shadow, "replay_real": real,
                       "how": "bin/check %s --replay %s" % (pid, path)}, f, indent=1)
        if real.get("holds") is False:
            violations.append((ob.name, path, r.get("message")))
        else:
            harness_errors.append("%s: counterexample %s does not reproduce on the real backend (shadow replay: %s, real: %s) -> stand-in or oracle mismatch; see %s"
                                  % (ob.name, call, shadow.get("holds"), real, path))
    if skipped:
        lines.append("NOTE %d further counterexamples of already-reported obligations were not replayed" % skipped)

    n_obl = sum(s["shards"] for s in per_ob)
    n_dis = sum(s["confirmed"] for s in per_ob)
    wall = time.time() - t_start
    encoded = sorted({q for ob in obligations for q in ob.encoded})
    ev = {
        "property_id": pid, "tier": tier, "seed": seed, "level": "other",
        "coverage": {
            "explanation": explanation or "bounded symbolic execution of the real pyrtma functions (CrossHair 0.0.110 + z3); "
                           "every obligation x shard is one exhaustive path-tree search whose verdict is the solver's",
            "obligations": n_obl, "discharged": n_dis,
            "evaluations": len(jobs), "distinct_nontrivial": len(nontrivial),
            "rule": "one evaluation = one CrossHair analysis (obligation x concrete shard of the boolean/structural switches, "
                    "all numeric inputs symbolic) or one direct z3 query; non-trivial = CONFIRMED with more than one explored path "
                    "(or an unsat z3 query); distinct by (obligation, shard)",
            "samples": samples,
            "exhaustive": bool(n_obl == n_dis and not inconclusive),
            "per_obligation": per_ob,
            "functions_encoded": source_digest(encoded),
            "bounds": {ob.name: ob.bounds for ob in obligations},
            "symbolic_inputs": {ob.name: ob.symbolic for ob in obligations},
            "paths_explored": sum(s["paths"] for s in per_ob),
            "solver_queries": sum(s["solver_calls"] for s in per_ob),
            "solver_s": round(sum(s["solver_s"] for s in per_ob), 2),
            "analysis_cpu_s": round(sum(s["cpu_s"] for s in per_ob), 1),
            "reach_twins": sum(s["twins"] for s in per_ob),
            "reach_twins_refuted": sum(s["twins_refuted"] for s in per_ob),
            "counterexamples_replayed": replayed,
            "traces_validated_against_impl": traces,
            "inconclusive": inconclusive[:50],
            "known_findings_reported": kf_lines,
            "harness_errors": harness_errors[:20],
            "checker_cmd": "bin/check %s %s" % (pid, tier),
            "trusted_base": ["CPython 3.12", "crosshair-tool 0.0.110", "z3-solver 5.1.0", "engine/shadow.py ctypes model (validated per run)",
                             "engine/standins.py containers (validated per run)"],
        },
        "assumptions": list(assumptions) + list(stubs),
        "wall_s": round(wall, 1),
        "violations": len(violations),
    }
    os.makedirs(EVDIR, exist_ok=True)
    with open(os.path.join(EVDIR, pid + ".json"), "w") as f:
        json.dump(ev, f, indent=1, default=str)

    for l in lines:
        print(l)
    for l in kf_lines:
        print(l)
    for s in per_ob:
        print("OBLIGATION %-28s shards=%d confirmed=%d failed=%d inconclusive=%d paths=%d solver_queries=%d solver_s=%.1f twins=%d/%d"
              % (s["name"], s["shards"], s["confirmed"], s["failed"], s["inconclusive"], s["paths"], s["solver_calls"],
                 s["solver_s"], s["twins_refuted"], s["twins"]))
    for i in inconclusive:
        print("INCONCLUSIVE " + i)
    for h in harness_errors:
        print("HARNESS-ERROR " + h)
    for name, path, msg in violations:
        print("VIOLATION property=%s replay=%s" % (pid, path))
        print("  obligation=%s %s" % (name, (msg or "")[:300]))
    print("SUMMARY property=%s tier=%s obligations=%d discharged=%d inconclusive=%d violations=%d wall=%.0fs"
          % (pid, tier, n_obl, n_dis, len(inconclusive), len(violations), wall))
    if violations:
        return EXIT_VIOLATION
    if harness_errors:
        return EXIT_HARNESS
    return EXIT_OK


def do_replay(path):
    with open(path) as f:
        d = json.load(f)
    r = replay(d["module"], d["call"], d["shard"], "real")
    print("REPLAY real backend: %s" % json.dumps(r))
    if r.get("holds") is False:
        print("VIOLATION property=%s replay=%s" % (d["property"], path))
        return EXIT_VIOLATION
    return EXIT_OK


def main():
    pid = sys.argv[1]
    if len(sys.argv) > 3 and sys.argv[2] == "--replay":
        sys.exit(do_replay(sys.argv[3]))
    tier = sys.argv[2] if len(sys.argv) > 2 else os.environ.get("VERIF_TIER", "quick")
    mod = importlib.import_module("props." + pid.lower())
    obs = mod.obligations(tier)
    if os.environ.get("VERIF_ONLY"):   # development aid: run only the obligations whose name contains the given text
        obs = [o for o in obs if os.environ["VERIF_ONLY"] in o.name]
    sys.exit(run_property(pid, tier, obs, validators=getattr(mod, "VALIDATORS", ()),
                          assumptions=getattr(mod, "ASSUMPTIONS", ()), explanation=getattr(mod, "EXPLANATION", ""),
                          stubs=getattr(mod, "STUBS", ())))


if __name__ == "__main__":
    main()
