"""Objects of the repository's classes, built by the repository's own __init__.

The harnesses model only some attributes of a Parser / compiler / DataCollection and used to allocate the object with
object.__new__ and set exactly those.  A change that adds an attribute in __init__ (a cache, a pre-allocated buffer) then
surfaced as an AttributeError - an alarm about nothing when the change is harmless, and the wrong reason when it is not.
Here the real __init__ runs first (with its logging / thread / socket side effects stubbed), so every attribute of the
current source exists with its real initial value; the harness then overwrites the ones it models.
"""
import logging as _logging

from .standins import NullLogger
from .shadow import NoTracing


class _LoggingShim:
    """stands for the `logging` module while an __init__ runs: loggers, handlers and formatters are inert objects"""

    def getLogger(self, *a, **k):
        return NullLogger()

    def __getattr__(self, k):
        if k.isupper():
            return getattr(_logging, k)
        return lambda *a, **kw: NullLogger()


def parser(P, debug=False, validate_alignment=True, auto_pad=True, import_coredefs=False):
    with NoTracing():
        p = object.__new__(P.Parser)
        saved = P.logging
        P.logging = _LoggingShim()
        try:
            P.Parser.__init__(p, debug=debug, validate_alignment=validate_alignment, auto_pad=auto_pad, import_coredefs=import_coredefs)
        finally:
            P.logging = saved
        p.logger = NullLogger()
    return p


def plain(cls, *args, **kw):
    """an object whose __init__ has no side effects to stub (the four back-end compilers)"""
    with NoTracing():
        return cls(*args, **kw)


def data_collection(DC, root, metadata, event_factory, thread_factory, name="c", dir_fmt="coll"):
    class _Threading:
        Event = staticmethod(event_factory)

        @staticmethod
        def Thread(*a, **k):
            return thread_factory()

    with NoTracing():
        c = object.__new__(DC.DataCollection)
        saved = (DC.threading, DC.logging)
        DC.threading = _Threading
        DC.logging = _LoggingShim()
        try:
            DC.DataCollection.__init__(c, name, str(root), dir_fmt, metadata, use_thread=True)
        finally:
            DC.threading, DC.logging = saved
    return c
