"""One CrossHair analysis of one harness function, in this process.

usage: python -m engine.worker <harness_module> <cond_timeout> <path_timeout> [flags]   (jobs as JSON on stdin)
flags: ieee      force z3 Float64 model for python floats
       nofmt     do NOT install the formatting stub (harnesses whose subject is emitted text)
env:   VERIF_SHARD   JSON object with the concrete shard parameters the harness module reads at import time
       VERIF_SEED    seeds CrossHair's path-selection RNG

Prints exactly one line starting with "RESULT " followed by a JSON object:
  state   CONFIRMED | POST_FAIL | EXEC_ERR | CANNOT_CONFIRM | PRE_UNSAT | ...   (CrossHair MessageType name)
  message CrossHair's message text
  call    the text of the concrete failing call, when there is one
  paths, solver_calls, solver_s, wall_s
"""
import collections
import importlib
import json
import os
import random
import re
import sys
import time


def install_format_stub():
    import crosshair.core as core
    from crosshair.libimpl import builtinslib as BL
    from crosshair.tracers import NoTracing

    orig = BL._format

    def _format_stub(obj, format_spec=""):
        with NoTracing():
            if isinstance(obj, (BL.SymbolicInt, BL.SymbolicBool, BL.SymbolicFloat)):
                return "<sym:%x>" % id(obj)   # distinct symbolic numbers render differently (names built from ids stay distinct)
            if isinstance(obj, (list, tuple, dict, set)) or type(obj).__name__ in ("ShellMutableSequence", "SymbolicList", "LinearSet", "LinearDict"):
                return "<container>"   # containers may hold symbolic numbers; message text is outside every claim
        return orig(obj, format_spec)

    core._PATCH_REGISTRATIONS[format] = _format_stub

    # str(symbolic number) would otherwise become a symbolic string (digits by arithmetic), which drags every later
    # text operation (dedent, regex) through CrossHair's string interpreter: render it as the same token instead
    def _str_stub(*a, **kw):
        if len(a) == 1 and not kw:
            with NoTracing():
                if isinstance(a[0], (BL.SymbolicInt, BL.SymbolicBool, BL.SymbolicFloat)):
                    return "<sym:%x>" % id(a[0])
                if isinstance(a[0], BL.AnySymbolicStr):
                    return a[0]
            return BL.invoke_dunder(a[0], "__str__")
        with NoTracing():
            return str(*a, **kw)

    core._PATCH_REGISTRATIONS[str] = _str_stub


def install_attr_patches():
    """CrossHair's setattr()/getattr() patches call the real builtins with tracing switched OFF, so a descriptor or
    property reached through them (pyrtma's validators use setattr(obj, private_name, value); _from_dict uses both)
    would handle symbolic values untraced.  These versions realise a symbolic name like the originals do, then perform
    the attribute access with tracing on."""
    import crosshair.core as core
    from crosshair.libimpl import builtinslib as BL
    from crosshair.tracers import NoTracing
    from crosshair.core import realize

    _MISSING = object()

    def _setattr(obj, name, value):
        with NoTracing():
            if isinstance(obj, BL.SymbolicValue):
                obj = realize(obj)
            if type(name) is BL.AnySymbolicStr:
                name = realize(name)
        return type(obj).__setattr__(obj, name, value)

    def _getattr(obj, name, default=_MISSING):
        with NoTracing():
            if isinstance(name, BL.AnySymbolicStr):
                name = realize(name)
            symbolic_obj = isinstance(obj, BL.SymbolicValue)
        if symbolic_obj:
            with NoTracing():
                return getattr(obj, name) if default is _MISSING else getattr(obj, name, default)
        try:
            return type(obj).__getattribute__(obj, name)
        except AttributeError:
            ga = getattr(type(obj), "__getattr__", None)
            if ga is not None:
                try:
                    return ga(obj, name)
                except AttributeError:
                    if default is _MISSING:
                        raise
                    return default
            if default is _MISSING:
                raise
            return default

    core._PATCH_REGISTRATIONS[setattr] = _setattr
    core._PATCH_REGISTRATIONS[getattr] = _getattr


def force_ieee():
    from crosshair.libimpl import builtinslib as BL

    BL._PYTYPE_TO_WRAPPER_TYPE[float] = ((BL.PreciseIeeeSymbolicFloat, 1.0),)


def install_state_reset():
    """before every CrossHair iteration, put module-/class-level containers of the pyrtma modules back to what they held
    when the analysis started (engine/statereset.py): executions stay independent of each other even if the code under
    analysis keeps a cache outside the state the harness builds"""
    import crosshair.core as core
    from engine import statereset

    orig = core.attempt_call

    def attempt_call(*a, **kw):
        statereset.restore()
        return orig(*a, **kw)

    core.attempt_call = attempt_call


_solver = {"calls": 0, "s": 0.0}
_installed = False


def time_solver():
    import z3

    orig = z3.Solver.check

    def check(self, *a):
        t = time.perf_counter()
        try:
            return orig(self, *a)
        finally:
            _solver["calls"] += 1
            _solver["s"] += time.perf_counter() - t

    z3.Solver.check = check


CALL_RE = re.compile(r"when calling (.*?)(?: \(which (?:returns|raises).*)?$", re.S)


def analyze(modname, fname, cond_timeout, path_timeout, flags=()):
    from crosshair.core_and_libs import analyze_function, run_checkables
    from crosshair.options import AnalysisOptionSet, AnalysisKind

    global _installed
    if not _installed:
        if "nofmt" not in flags:
            install_format_stub()
        if "ieee" in flags:
            force_ieee()
        install_attr_patches()
        time_solver()
        install_state_reset()
        _installed = True
    c0, s0 = _solver["calls"], _solver["s"]
    seed = int(os.environ.get("VERIF_SEED", "0") or 0)
    random.seed(seed)
    mod = importlib.import_module(modname)
    fn = getattr(mod, fname)
    from engine import statereset
    statereset.snapshot()
    stats = collections.Counter()
    opts = AnalysisOptionSet(
        per_condition_timeout=cond_timeout,
        per_path_timeout=path_timeout,
        report_all=True,
        analysis_kind=[AnalysisKind.PEP316],
        max_uninteresting_iterations=10**9,
        stats=stats,
    )
    t0 = time.time()
    msgs = run_checkables(analyze_function(fn, opts))
    wall = time.time() - t0
    out = []
    for m in msgs:
        d = {"state": m.state.name, "message": m.message[:2000]}
        mm = CALL_RE.search(m.message)
        if mm:
            d["call"] = mm.group(1).strip()
        if m.state.name == "EXEC_ERR":
            d["traceback"] = (m.traceback or "")[-1500:]
        out.append(d)
    if not out:
        out = [{"state": "NO_MESSAGE", "message": "crosshair returned no message (no conditions found?)"}]
    # worst message first: a failure beats everything
    order = {"POST_FAIL": 0, "EXEC_ERR": 0, "PRE_UNSAT": 1, "CANNOT_CONFIRM": 2, "NO_MESSAGE": 2, "CONFIRMED": 9}
    out.sort(key=lambda d: order.get(d["state"], 1))
    res = dict(out[0])
    res.update(paths=int(stats.get("num_paths", 0)), solver_calls=_solver["calls"] - c0,
               solver_s=round(_solver["s"] - s0, 3), wall_s=round(wall, 3), all_states=[d["state"] for d in out])
    return res


def main():
    """argv: <harness_module> <cond_timeout> <path_timeout> [flags]; stdin: one JSON job per line
    {"id":..., "func":..., "shard": {...}}; answers each with one "RESULT <json>" line (with the job id)."""
    modname, ct, pt = sys.argv[1:4]
    flags = sys.argv[4:]
    sys.path.insert(0, os.path.dirname(os.path.dirname(os.path.abspath(__file__))))
    for line in sys.stdin:
        line = line.strip()
        if not line:
            continue
        job = json.loads(line)
        try:
            mod = importlib.import_module(modname)
            if hasattr(mod, "set_shard"):
                mod.set_shard(job.get("shard", {}))
            res = analyze(modname, job["func"], float(ct), float(pt), flags)
        except Exception as e:  # harness import error etc.: a harness error, never a verdict
            import traceback

            res = {"state": "HARNESS_ERROR", "message": f"{type(e).__name__}: {e}",
                   "traceback": traceback.format_exc()[-3000:]}
        res["id"] = job["id"]
        print("RESULT " + json.dumps(res), flush=True)


if __name__ == "__main__":
    main()
