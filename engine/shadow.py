"""C-boundary shadow layer: ctypes-free twins of pyrtma message classes.

shadow_of(cls) builds, from the imported real class, a plain Python class that carries FRESH INSTANCES
OF THE REAL pyrtma.validators DESCRIPTOR CLASSES (so validate_one/validate_many/__get__/__set__/
__setitem__ are the repository's code) on top of a small model of what ctypes does when a private
field (`_msg_type`, ...) is written or read:

  integer fields   int/bool stored modulo 2^k with the field's signedness; float -> TypeError
  c_float/c_double int/float accepted; c_float rounds to the nearest float32 (overflow -> inf)
  c_char           one byte
  c_char * n       bytes of length <= n (longer: ValueError); copy + one NUL, tail left as is;
                   read = bytes up to the first NUL
  arrays           fixed length, negative index wraps once, IndexError outside, slice assignment
                   checks the length first then stores element by element
  nested structs   assignment copies the contents

engine/validate_shadow.py compares this model with the real ctypes classes on every run.
"""
import ctypes
import math
import struct as _struct

from pyrtma import validators as V
from pyrtma.message_base import MessageBase

try:  # only present in the CrossHair-enabled environment
    import z3
    from crosshair.libimpl import builtinslib as BL
    from crosshair.tracers import NoTracing, ResumedTracing
except Exception:  # pragma: no cover
    z3 = None
    BL = None

    class NoTracing:  # type: ignore
        def __enter__(self):
            return self

        def __exit__(self, *a):
            return False

    ResumedTracing = NoTracing  # type: ignore


def _traced(fn):
    """CrossHair's patched setattr()/getattr() builtins call the target with tracing switched off; the store model
    operates on symbolic values, so its accessors switch tracing back on for their own body."""

    def w(*a):
        with ResumedTracing():
            return fn(*a)

    return w


INT_TYPES = {
    ctypes.c_int8: (8, True), ctypes.c_uint8: (8, False),
    ctypes.c_int16: (16, True), ctypes.c_uint16: (16, False),
    ctypes.c_int32: (32, True), ctypes.c_uint32: (32, False),
    ctypes.c_int64: (64, True), ctypes.c_uint64: (64, False),
}
FLOAT_TYPES = {ctypes.c_float: 32, ctypes.c_double: 64}


def int_range(bits, signed):
    if signed:
        return -(1 << (bits - 1)), (1 << (bits - 1)) - 1
    return 0, (1 << bits) - 1


def wrap_int(v, bits, signed):
    lo, hi = int_range(bits, signed)
    if lo <= v <= hi:
        return v
    m = 1 << bits
    v = v % m
    if signed and v >= (m >> 1):
        v -= m
    return v


_ROUNDED = []   # z3 terms produced by round_f32 in this execution (identity-compared)


def round_f32(v):
    """value of ctypes.c_float(v).value.  Rounding to float32 is idempotent (lemma discharged by engine/validate_fp_lemma.py),
    so a value that already is the result of round_f32 is returned as it is instead of nesting two conversions."""
    with NoTracing():
        if BL is not None and isinstance(v, BL.PreciseIeeeSymbolicFloat):
            for t in _ROUNDED[-64:]:
                if t is v.var:
                    return v
            r = z3.fpToFP(z3.RNE(), z3.fpToFP(z3.RNE(), v.var, z3.Float32()), z3.Float64())
            _ROUNDED.append(r)
            if len(_ROUNDED) > 256:
                del _ROUNDED[:128]
            return BL.PreciseIeeeSymbolicFloat(r)
    return ctypes.c_float(v).value


def _as_float(v):
    """float(v) for ints; a float is returned as is (float() of a symbolic float would realise it)"""
    if isinstance(v, float):
        return v
    return float(v)


class ShCFloat:
    """stands for ctypes.c_float in the Float validator's `self._ctype(value).value`"""

    def __init__(self, v=0.0):
        if isinstance(v, bool) or not isinstance(v, (int, float)):
            if isinstance(v, bool):
                v = int(v)
            else:
                raise TypeError("must be real number, not %s" % type(v).__name__)
        self.value = round_f32(_as_float(v))


class ShCDouble:
    def __init__(self, v=0.0):
        if isinstance(v, bool):
            v = int(v)
        elif not isinstance(v, (int, float)):
            raise TypeError("must be real number, not %s" % type(v).__name__)
        self.value = _as_float(v)


def store_int(v, bits, signed):
    if isinstance(v, bool):
        return int(v)
    if isinstance(v, int):
        return wrap_int(v, bits, signed)
    raise TypeError("an integer is required (got type %s)" % type(v).__name__)


def store_float(v, bits):
    if isinstance(v, bool):
        v = int(v)
    if not isinstance(v, (int, float)):
        raise TypeError("must be real number, not %s" % type(v).__name__)
    v = _as_float(v)
    return round_f32(v) if bits == 32 else v


def _concrete_int(k):
    with NoTracing():
        return type(k) is int


class ShadowArray:
    """fixed-length array with ctypes semantics. `conv` is the per-element store function."""

    def __init__(self, n, init, conv, sparse=False):
        self.n = n
        self.conv = conv
        self.sparse = sparse
        if sparse:
            self.default = init()
            self.assoc = []  # (index, value), newest last
            self.cdict = {}  # fast path while every written index is concrete
        else:
            self.items = [init() for _ in range(n)]

    def _ix(self, i):
        if not isinstance(i, int):
            raise TypeError("indices must be integers")
        if i < 0:
            i += self.n
        if i < 0 or i >= self.n:
            raise IndexError("invalid index")
        return i

    def __len__(self):
        return self.n

    def _get(self, k):
        if self.sparse:
            if self.cdict is not None and _concrete_int(k):
                return self.cdict.get(k, self.default)
            r = self.default
            for j, v in self.assoc:
                if j == k:
                    r = v
            return r
        if _concrete_int(k):
            return self.items[k]
        for j in range(self.n):
            if j == k:
                return self.items[j]
        raise IndexError("invalid index")

    def _put(self, k, v):
        if self.sparse:
            self.assoc.append((k, v))
            if self.cdict is not None and _concrete_int(k):
                self.cdict[k] = v
            else:
                self.cdict = None
            return
        if _concrete_int(k):
            self.items[k] = v
            return
        for j in range(self.n):
            if j == k:
                self.items[j] = v
                return

    def __getitem__(self, k):
        if isinstance(k, slice):
            return [self._get(j) for j in range(*k.indices(self.n))]
        return self._get(self._ix(k))

    def __setitem__(self, k, v):
        if isinstance(k, slice):
            idx = range(*k.indices(self.n))
            try:
                n = len(v)
            except TypeError:
                raise TypeError("can only assign sequence of same size")
            if n != len(idx):
                raise ValueError("Can only assign sequence of same size")
            for j, x in zip(idx, list(v)):
                self._put(j, self.conv(x))
            return
        k = self._ix(k)
        self._put(k, self.conv(v))

    def __iter__(self):
        return iter(self[:])

    def snapshot(self):
        if self.sparse:
            with NoTracing():
                concrete = all(type(j) is int for j, _ in self.assoc)
            if concrete:
                last = {}
                for j, v in self.assoc:
                    last[j] = v
                return ("sparse", sorted(last.items(), key=lambda jv: jv[0]))
            return ("sparse", list(self.assoc))
        return [snap(x) for x in self.items]


def snap(x):
    """comparable snapshot of a stored value (the model of the bytes of the field)"""
    if hasattr(x, "_shadow_store"):
        return x._shadow_store()
    if isinstance(x, ShadowArray):
        return x.snapshot()
    return x


def store_eq(a, b):
    """equality of two store snapshots; floats: equal, or both NaN (sign of zero / NaN payload: see C10)"""
    if isinstance(a, tuple) and isinstance(b, tuple) and len(a) == 2 and a[0] == "sparse" and b[0] == "sparse":
        da, db = dict(a[1]), dict(b[1])  # concrete indices (symbolic-index snapshots are never compared)
        for k in set(da) | set(db):
            if not store_eq(da.get(k, 0), db.get(k, 0)):
                return False
        return True
    if isinstance(a, (list, tuple)) and isinstance(b, (list, tuple)):
        if len(a) != len(b):
            return False
        for x, y in zip(a, b):
            if not store_eq(x, y):
                return False
        return True
    if isinstance(a, float) and isinstance(b, float):
        return a == b or (a != a and b != b)
    return a == b


def store_diff(a, b):
    """leaf pairs of two snapshots that are not the very same object (collected without tracing: no operation on values).
    returns None if the shapes differ."""
    out = []

    def walk(x, y):
        if x is y:
            return True
        if isinstance(x, (list, tuple)) and isinstance(y, (list, tuple)):
            if len(x) != len(y):
                return False
            for p, q in zip(x, y):
                if not walk(p, q):
                    return False
            return True
        out.append((x, y))
        return True

    with NoTracing():
        ok = walk(a, b)
    return out if ok else None


def store_eq_fast(a, b):
    """store_eq that only compares (under tracing) the leaves that are not identical objects"""
    d = store_diff(a, b)
    if d is None:
        return False
    for x, y in d:
        if not store_eq(x, y):
            return False
    return True


_cache = {}
SPARSE_THRESHOLD = 100  # longer arrays are association lists, so that a symbolic index costs one comparison per write


def all_fields(cls):
    out = []
    for b in reversed(cls.__mro__):
        f = b.__dict__.get("_fields_")
        if f:
            out.extend((x[0], x[1]) for x in f)
    return out


def _find_desc(cls, name):
    for b in cls.__mro__:
        if name in b.__dict__:
            return b.__dict__[name]
    return None


def _char_array_prop(key, n):
    def get(self):
        raw = self.__dict__[key]
        i = raw.find(b"\x00")
        return raw if i < 0 else raw[:i]

    def set_(self, v):
        if isinstance(v, bytearray):
            v = bytes(v)
        if not isinstance(v, bytes):
            raise TypeError("bytes expected instead of %s instance" % type(v).__name__)
        k = len(v)
        if k > n:
            raise ValueError("bytes too long (%d, maximum length %d)" % (k, n))
        raw = self.__dict__[key]
        if k < n:
            self.__dict__[key] = v + b"\x00" + raw[k + 1:]
        else:
            self.__dict__[key] = v

    return property(_traced(get), _traced(set_))


def _char_prop(key):
    def get(self):
        return self.__dict__[key]

    def set_(self, v):
        if isinstance(v, bytearray):
            v = bytes(v)
        if isinstance(v, bytes) and len(v) == 1:
            self.__dict__[key] = v
            return
        if isinstance(v, int) and not isinstance(v, bool) and 0 <= v <= 255:
            self.__dict__[key] = bytes([v])
            return
        raise TypeError("one character bytes, bytearray or integer expected")

    return property(_traced(get), _traced(set_))


def _scalar_prop(key, conv):
    def get(self):
        return self.__dict__[key]

    def set_(self, v):
        self.__dict__[key] = conv(v)

    return property(_traced(get), _traced(set_))


def _struct_prop(key, sc):
    def get(self):
        return self.__dict__[key]

    def set_(self, v):
        if not isinstance(v, sc):
            raise TypeError("expected %s instance, got %s" % (sc.__name__, type(v).__name__))
        self.__dict__[key]._shadow_copy_from(v)

    return property(_traced(get), _traced(set_))


def _array_prop(key, n):
    def get(self):
        return self.__dict__[key]

    def set_(self, v):
        if isinstance(v, ShadowArray) and v.n == n:
            cur = self.__dict__[key]
            if v is cur:
                return
            cur[:] = v[:]
            return
        raise TypeError("expected array instance of length %d, got %s" % (n, type(v).__name__))

    return property(_traced(get), _traced(set_))


def _struct_conv(sc):
    def conv(v):
        if not isinstance(v, sc):
            raise TypeError("expected %s instance, got %s" % (sc.__name__, type(v).__name__))
        o = sc()
        o._shadow_copy_from(v)
        return o

    return conv


def shadow_of(cls):
    """ctypes-free twin of a MessageBase subclass (memoised)."""
    if cls in _cache:
        return _cache[cls]
    assert isinstance(cls, type) and issubclass(cls, MessageBase), cls
    ns = {}
    inits = {}
    fields = all_fields(cls)
    for pname, ftype in fields:
        name = pname[1:] if pname.startswith("_") else pname
        key = "$" + name
        desc = _find_desc(cls, name) if pname.startswith("_") else None
        if isinstance(ftype, type) and issubclass(ftype, ctypes.Array):
            et, n = ftype._type_, ftype._length_
            if et is ctypes.c_char:
                nd = V.String(n)
                ns[pname] = _char_array_prop(key, n)
                inits[key] = (lambda n=n: b"\x00" * n)
            elif issubclass(et, MessageBase):
                sc = shadow_of(et)
                nd = V.StructArray.__new__(V.StructArray)
                nd._validator = V.Struct(sc)
                nd._len = n
                nd._bound_obj = None
                nd._ctype = ftype
                ns[pname] = _array_prop(key, n)
                inits[key] = (lambda n=n, sc=sc: ShadowArray(n, sc, _struct_conv(sc)))
            else:
                if et in INT_TYPES:
                    bits, signed = INT_TYPES[et]
                    conv = (lambda v, b=bits, s=signed: store_int(v, b, s))
                    zero = int
                else:
                    bits = FLOAT_TYPES[et]
                    conv = (lambda v, b=bits: store_float(v, b))
                    zero = float
                nd = type(desc).__new__(type(desc))
                inner = type(desc._validator)()
                if et is ctypes.c_float:
                    inner._ctype = ShCFloat
                elif et is ctypes.c_double:
                    inner._ctype = ShCDouble
                nd._validator = inner
                nd._len = n
                nd._bound_obj = None
                nd._ctype = ftype
                ns[pname] = _array_prop(key, n)
                inits[key] = (lambda n=n, zero=zero, conv=conv: ShadowArray(n, zero, conv, sparse=n > SPARSE_THRESHOLD))
        elif isinstance(ftype, type) and issubclass(ftype, MessageBase):
            sc = shadow_of(ftype)
            nd = V.Struct(sc)
            ns[pname] = _struct_prop(key, sc)
            inits[key] = sc
        elif ftype is ctypes.c_char:
            nd = V.Char()
            ns[pname] = _char_prop(key)
            inits[key] = (lambda: b"\x00")
        elif ftype in INT_TYPES:
            bits, signed = INT_TYPES[ftype]
            nd = type(desc)() if desc is not None else None
            ns[pname] = _scalar_prop(key, (lambda v, b=bits, s=signed: store_int(v, b, s)))
            inits[key] = int
        elif ftype in FLOAT_TYPES:
            bits = FLOAT_TYPES[ftype]
            nd = type(desc)() if desc is not None else None
            if nd is not None:
                nd._ctype = ShCFloat if bits == 32 else ShCDouble
            ns[pname] = _scalar_prop(key, (lambda v, b=bits: store_float(v, b)))
            inits[key] = float
        else:
            raise NotImplementedError("shadow: field %s.%s of ctype %r" % (cls.__name__, pname, ftype))
        if nd is not None and pname.startswith("_"):
            ns[name] = nd

    for k in ("type_id", "type_name", "type_hash", "type_size", "type_source", "type_def"):
        if hasattr(cls, k):
            ns[k] = getattr(cls, k)
    keys = list(inits)

    def __init__(self):
        d = self.__dict__
        for k in keys:
            d[k] = inits[k]()

    def _shadow_store(self):
        return tuple((k, snap(self.__dict__[k])) for k in keys)

    def _shadow_copy_from(self, other):
        for k in keys:
            v = other.__dict__[k]
            if isinstance(v, ShadowArray):
                self.__dict__[k][:] = v[:]
            elif hasattr(v, "_shadow_copy_from"):
                self.__dict__[k]._shadow_copy_from(v)
            else:
                self.__dict__[k] = v

    def __eq__(self, other):
        if type(self) is not type(other):
            return False
        return store_eq(self._shadow_store(), other._shadow_store())

    @classmethod
    def from_buffer(c, obj, *a):
        return _from_buffer(c, obj)

    @classmethod
    def from_buffer_copy(c, obj, *a):
        src = _from_buffer(c, obj)
        o = c()
        o._shadow_copy_from(src)
        return o

    ns.update(
        __init__=__init__, _shadow_store=_shadow_store, _shadow_copy_from=_shadow_copy_from, __eq__=__eq__,
        __hash__=None, from_buffer=from_buffer, from_buffer_copy=from_buffer_copy,
        _fields_=list(cls._fields_), _all_fields_=fields, _real=cls, _shadow_keys=keys,
        size=property(lambda self: ctypes.sizeof(cls)),
        to_dict=MessageBase.to_dict, from_dict=classmethod(MessageBase.from_dict.__func__),
    )
    for prop in ("version",):
        p = _find_desc(cls, prop)
        if isinstance(p, property):
            ns[prop] = p
    sc = type("Sh_" + cls.__name__, (object,), ns)
    _cache[cls] = sc
    return sc


class PayloadBuf:
    """stands for the manager's 1 MiB data_buffer: `Shadow.from_buffer(buf)` yields a shadow whose
    private fields are the values the harness put in `vals` (arbitrary within the C range of each field);
    fields not listed keep the zero value."""

    def __init__(self, **vals):
        self.vals = dict(vals)

    def __len__(self):
        return 1024 ** 2

    def materialise(self, c):
        o = c()
        for k, v in self.vals.items():
            if "$" + k in o.__dict__:
                o.__dict__["$" + k] = v
        return o


def _layout(c):
    return [ft for _, ft in c._all_fields_]


def _from_buffer(c, obj):
    if isinstance(obj, PayloadBuf):
        return obj.materialise(c)
    if hasattr(obj, "shadow_from_buffer"):      # a slice of the manager's receive view (engine.mgrworld.PayloadSlice)
        return obj.shadow_from_buffer(c)
    if isinstance(obj, c):
        return obj
    if hasattr(obj, "_shadow_keys"):
        # reinterpretation of another shadow with an identical leading layout (e.g. RESUME_SUBSCRIPTION as SUBSCRIBE)
        lc, lo = _layout(c), _layout(type(obj))
        if lo[: len(lc)] == lc:
            o = c()
            for kc, ko in zip(c._shadow_keys, type(obj)._shadow_keys):
                o.__dict__[kc] = obj.__dict__[ko]
            return o
    raise TypeError("shadow from_buffer: cannot reinterpret %r as %s" % (type(obj).__name__, c.__name__))


class ModProxy:
    """module proxy for `cd` as seen from pyrtma.manager / pyrtma.client: message classes are replaced by shadows"""

    def __init__(self, mod):
        object.__setattr__(self, "_mod", mod)

    def __getattr__(self, k):
        v = getattr(self._mod, k)
        if isinstance(v, type) and issubclass(v, MessageBase):
            return shadow_of(v)
        return v


class CtypesShim:
    """`ctypes` as seen from pyrtma.manager / pyrtma.client: sizeof() understands shadows"""

    def __getattr__(self, k):
        return getattr(ctypes, k)

    def sizeof(self, x):
        r = getattr(x, "_real", None)
        if r is not None:
            return ctypes.sizeof(r)
        return ctypes.sizeof(x)


class CoreTable:
    """stands for the dict returned by pyrtma.context._get_core_defs(): type id -> shadow class, == lookup"""

    def __init__(self, real):
        self.kv = [(tid, shadow_of(cls)) for tid, cls in real.items()]

    def get(self, k, default=None):
        for kk, v in self.kv:
            if kk == k:
                return v
        return default
