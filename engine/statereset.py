"""Restores module-level / class-level mutable state of the pyrtma modules before every CrossHair iteration.

CrossHair re-executes a harness once per path and requires the executions to be deterministic; the inductive step
lemmas in turn assume that the state a step depends on is the state the harness constructs.  Both break silently when
the code under analysis keeps something *outside* that state - a cache in a module global or a class attribute (two
seeded changes did exactly this: a per-process 'already version-checked' set in message.py, a class-level descriptor
cache in the Python back end).  The first iteration fills the cache, later iterations take other paths, CrossHair
reports NotDeterministic and the obligation ends inconclusive instead of refuted.

snapshot() records, for every loaded pyrtma module, the builtin containers (dict / set / list / defaultdict / Counter /
deque) bound at module level or as class attributes of classes defined there, and the instance dictionaries of
module-level objects whose class is defined in pyrtma; restore() puts the recorded contents back *in place*.
The worker takes the snapshot after the harness is imported and the shard is set, and calls restore() before every
iteration (hook on crosshair.core.attempt_call).  Hidden state that survives *within* one execution is thereby still
visible to multi-step scenarios (which is where such changes are caught), while executions stay independent.
"""
import collections
import sys

_CONTAINERS = (dict, set, list, collections.defaultdict, collections.Counter, collections.deque, collections.OrderedDict)
_snap = []      # (container, shallow copy)
_objs = []      # (object, copy of __dict__)


def _is_container(v):
    return type(v) in _CONTAINERS


def snapshot(prefix="pyrtma"):
    _snap.clear()
    _objs.clear()
    seen = set()

    def rec(v):
        if id(v) in seen:
            return
        seen.add(id(v))
        if type(v) is collections.deque:
            _snap.append((v, list(v)))
        else:
            _snap.append((v, v.copy()))

    for name, mod in list(sys.modules.items()):
        if mod is None or not (name == prefix or name.startswith(prefix + ".")):
            continue
        try:
            items = list(vars(mod).items())
        except TypeError:
            continue
        for k, v in items:
            if k.startswith("__"):
                continue
            if _is_container(v):
                rec(v)
            elif isinstance(v, type) and getattr(v, "__module__", None) == name:
                for ck, cv in list(vars(v).items()):
                    if not ck.startswith("__") and _is_container(cv):
                        rec(cv)
            elif (not isinstance(v, type) and type(v).__module__.startswith(prefix) and hasattr(v, "__dict__")
                  and not callable(v) and id(v) not in seen):
                seen.add(id(v))
                try:
                    _objs.append((v, dict(vars(v))))
                except TypeError:
                    pass
    return len(_snap) + len(_objs)


def restore():
    for c, saved in _snap:
        try:
            _restore_one(c, saved)
        except Exception:   # e.g. comparing against a symbolic leftover of the previous iteration: just overwrite
            c.clear()
            (c.extend if type(c) in (list, collections.deque) else c.update)(saved)
    for o, d in _objs:
        cur = vars(o)
        if len(cur) != len(d) or any(k not in cur or cur[k] is not v for k, v in d.items()):
            cur.clear()
            cur.update(d)


def _restore_one(c, saved):
    if True:
        t = type(c)
        if t is list:
            if len(c) != len(saved) or any(a is not b for a, b in zip(c, saved)):
                c[:] = saved
        elif t is collections.deque:
            c.clear()
            c.extend(saved)
        elif t is set:
            if c != saved:
                c.clear()
                c.update(saved)
        else:
            if len(c) != len(saved) or any(k not in c or c[k] is not v for k, v in saved.items()):
                c.clear()
                c.update(saved)
