"""Builds a MessageManager (the real class, from /repo/src) in one of two worlds:

  shadow  (default; what CrossHair executes): message classes are the ctypes-free shadows of engine.shadow,
          tables are the hash-free stand-ins, sockets are FakeConn recorders, select/print/logger are stubs.
          The stubs are installed ONCE at import time by rebinding names on the imported pyrtma.manager module.
  real    (VERIF_BACKEND=real; used to replay a counterexample): unmodified pyrtma.manager with real ctypes
          classes, real dict/set/Counter, real memoryview buffers.  Connections are still FakeConn recorders
          (a real kernel socket cannot be told to fail at a chosen sendall); they record bytes(header).

The manager object is created with object.__new__ and given exactly the attributes __init__ would set, minus the
listening socket (so no port is bound).
"""
import contextvars
import ctypes
import errno
import os
import socket as _socket
from collections import Counter, defaultdict

import pyrtma.manager as M
from pyrtma import core_defs as cd
from pyrtma.header import MessageHeader, TimeCodeMessageHeader
from pyrtma.context import _get_core_defs as _real_get_core_defs

from . import shadow as SH
from .shadow import NoTracing
from .standins import LinearSet, LinearDict, LinearCounter, NullLogger

BACKEND = os.environ.get("VERIF_BACKEND", "shadow")
SHADOW = BACKEND == "shadow"
ALL = cd.ALL_MESSAGE_TYPES
REAL_CORE = dict(_real_get_core_defs())

STUBS = []


class SelShim:
    """select.select stand-in: the blocking logger wait returns at once; everything listed is ready"""

    def select(self, r, w, x, t=None):
        return (list(r), list(w), [])


if SHADOW:
    M.cd = SH.ModProxy(cd)
    M.ctypes = SH.CtypesShim()
    M.select = SelShim()
    M.print = lambda *a, **k: None
    _CORE_TABLE = SH.CoreTable(REAL_CORE)
    M._get_core_defs = lambda: _CORE_TABLE
    STUBS += [
        "pyrtma.manager.cd -> module proxy handing out ctypes-free shadow classes (engine.shadow)",
        "pyrtma.manager.ctypes.sizeof -> sizeof of the real class behind a shadow",
        "pyrtma.manager.select.select -> returns every listed socket as ready, never blocks",
        "pyrtma.manager.print -> no-op",
        "pyrtma.manager._get_core_defs -> association-list table of shadow classes (== lookup, no hashing)",
        "MessageManager._logger -> NullLogger (log text and RTMA_LOG_* emission outside the claim)",
        "sockets -> FakeConn recorders; sendall fails with ConnectionResetError from a chosen call on, OSError(EBADF) after close()",
    ]
else:
    M.print = lambda *a, **k: None
    M.select = SelShim()  # connections are recorders without a file descriptor, also in the real world


def header_class(timecode=False):
    real = TimeCodeMessageHeader if timecode else MessageHeader
    return SH.shadow_of(real) if SHADOW else real


def data_class(name):
    real = getattr(cd, name)
    return SH.shadow_of(real) if SHADOW else real


def hdr_fields(h):
    """private field name -> value, for shadow and real headers alike"""
    real = getattr(type(h), "_real", type(h))
    return {p[1:]: getattr(h, p) for p, _ in SH.all_fields(real)}


class FakeConn:
    def __init__(self, i, fail_after=None):
        self.i = i
        self.calls = []
        self.closed = False
        self.ok_calls = 0
        self.fail_after = fail_after  # None: never fails; k: the (k+1)-th sendall and every later one raise

    block_at = None   # k: from its (k+1)-th sendall on, a NON-BLOCKING send writes part of its bytes and raises BlockingIOError

    def fileno(self):
        """file descriptor number: the connection's index (a harness that models the OS handing the lowest free descriptor to
        the next accept() gives the new connection the index of the one that was closed)"""
        return self.i + 100

    def sendall(self, b, flags=0):
        # pure recording: no operation on (possibly symbolic) field values, so it runs outside the tracer
        with NoTracing():
            return self._sendall(b, flags)

    def _sendall(self, b, flags=0):
        if self.closed:
            raise OSError(errno.EBADF, "Bad file descriptor")
        if flags & _socket.MSG_DONTWAIT and self.block_at is not None and self.ok_calls >= self.block_at:
            # socket.sendall with MSG_DONTWAIT on a full send buffer: some bytes are written, then BlockingIOError
            self.calls.append(("P", b"partial", None, None) if self.calls and self.calls[-1][0] == "H" else ("H", {"partial": True}))
            raise BlockingIOError(errno.EAGAIN, "Resource temporarily unavailable")
        if self.fail_after is not None and self.ok_calls >= self.fail_after:
            raise ConnectionResetError(errno.ECONNRESET, "Connection reset by peer")
        self.ok_calls += 1
        if hasattr(b, "_shadow_keys") and issubclass(getattr(type(b), "_real", object), MessageHeader):
            self.calls.append(("H", hdr_fields(b)))
        elif isinstance(b, MessageHeader):
            self.calls.append(("H", hdr_fields(b)))
        elif hasattr(b, "_shadow_keys"):
            self.calls.append(("P", b, dict((k[1:], v) for k, v in b._shadow_store()), ctypes.sizeof(type(b)._real)))
        elif isinstance(b, ctypes.Structure):
            self.calls.append(("P", b, _real_fields(b), ctypes.sizeof(b)))
        else:
            self.calls.append(("P", b, None, None))  # length: plen(rec), computed by the oracle (may be symbolic)

    # --- receive side: scripted by the harness (self.recv_script = list of "full" | ("short", k) | "reset")
    recv_script = ()
    recv_calls = 0

    def recv_into(self, buf, n=0, flags=0):
        if self.closed:
            raise OSError(errno.EBADF, "Bad file descriptor")
        # CPython socket.recv_into contract: negative size / size larger than the buffer -> ValueError
        if n < 0:
            raise ValueError("negative buffersize in recv_into")
        cap = buffer_capacity(buf)
        if n > cap:
            raise ValueError("buffer too small for requested bytes")
        i = self.recv_calls
        self.recv_calls = i + 1
        what = self.recv_script[i] if i < len(self.recv_script) else "full"
        if what == "reset":
            raise ConnectionResetError(errno.ECONNRESET, "Connection reset by peer")
        if what == "full":
            return n
        return what[1]  # short read: the peer closed after k < n bytes

    def close(self):
        self.closed = True

    def fileno(self):
        return -1 if self.closed else 1000 + self.i

    def __hash__(self):
        return self.i

    def __eq__(self, o):
        return self is o

    def frames(self):
        """[(header dict, payload record)] ; raises AssertionError if the stream is not header,payload,header,payload..."""
        out = []
        cur = None
        for c in self.calls:
            if c[0] == "H":
                if cur is not None:
                    raise AssertionError("two headers in a row")
                cur = c[1]
            else:
                if cur is None:
                    raise AssertionError("payload without header")
                out.append((cur, c))
                cur = None
        if cur is not None:
            raise AssertionError("dangling header")
        return out

    def whole_frames(self):
        try:
            self.frames()
            return True
        except AssertionError:
            return False


def buffer_capacity(buf):
    if isinstance(buf, SH.PayloadBuf):
        return 1024 ** 2
    if buf is None or hasattr(buf, "_shadow_keys"):
        return 10 ** 9  # header buffer stand-in: always requested with its exact size
    return len(buf)


def _real_fields(obj):
    out = {}
    for pname, ftype in SH.all_fields(type(obj)):
        v = getattr(obj, pname)
        if isinstance(v, ctypes.Array):
            v = [(_real_fields(x) if isinstance(x, ctypes.Structure) else x) for x in v]
        elif isinstance(v, ctypes.Structure):
            v = _real_fields(v)
        out[pname[1:]] = v
    return out


def plen(rec):
    return rec[3] if rec[3] is not None else len(rec[1])


def pfield(rec, *path):
    """field of a recorded payload ('P', obj, fields, size) by path, e.g. pfield(rec, 'msg_header', 'msg_type')"""
    cur = rec[2]
    for p in path:
        if isinstance(cur, tuple):  # nested shadow store
            cur = dict((k[1:], v) for k, v in cur)
        cur = cur[p]
    if isinstance(cur, bytes):  # char array: the observable value stops at the first NUL (as ctypes reports it)
        i = cur.find(b"\x00")
        if i >= 0:
            cur = cur[:i]
    return cur


class ViewStandin:
    """stands for data_view (memoryview over data_buffer): records the slice the manager forwards.  A slice remembers the
    manager it was cut from, so that `Shadow.from_buffer(slice)` behaves like ctypes on a memoryview slice: ValueError when the
    slice is shorter than the structure, otherwise the structure found at that offset of the receive buffer."""

    def __init__(self, mm=None):
        self.mm = mm

    def __getitem__(self, sl):
        assert isinstance(sl, slice)
        return PayloadSlice(sl.start, sl.stop, self.mm)

    def __len__(self):
        return 1024 ** 2


class PayloadSlice:
    def __init__(self, start, stop, mm=None):
        self.start = start
        self.stop = stop
        self.mm = mm

    def __len__(self):
        return self.stop - (self.start or 0)

    def shadow_from_buffer(self, c):
        """ctypes' from_buffer contract on a writable buffer slice"""
        need = ctypes.sizeof(c._real)
        if len(self) < need:
            raise ValueError("Buffer size too small (%s instead of at least %d bytes)" % ("<sym>", need))
        if (self.start or 0) != 0 or self.mm is None:
            raise TypeError("shadow from_buffer: a slice that does not start at the beginning of the receive buffer is not modelled")
        return self.mm.data_buffer.materialise(c)


def build(n, timecode=False, send_timing=True):
    """manager with n client modules (accepted, not yet connected, mod_id 0). returns (mm, [modules])
    Everything built here is concrete, so it is built outside CrossHair's tracer (speed only)."""
    with NoTracing():
        return _build(n, timecode, send_timing)


class _SocketModuleForInit:
    """stands for the `socket` module while the real MessageManager.__init__ runs: socket() hands out the listening recorder,
    every constant comes from the real module"""

    def __init__(self, conn):
        self._conn = conn

    def socket(self, *a, **k):
        return self._conn

    def __getattr__(self, k):
        return getattr(_socket, k)


def _real_init(mm, H, timecode, send_timing, lc):
    """run the repository's own MessageManager.__init__ on mm (listening socket, logger and header class stubbed), so that every
    attribute the current source initialises exists with its real initial value - the fields the harnesses model are then
    overwritten below.  Without this a change that merely adds an attribute in __init__ would surface as an AttributeError,
    i.e. as an alarm about nothing."""
    saved = (M.socket, M.RTMALogger, M.get_header_cls)
    lc.bind = lc.listen = lc.setsockopt = lambda *a, **k: None
    M.socket = _SocketModuleForInit(lc)
    M.RTMALogger = lambda *a, **k: NullLogger()
    M.get_header_cls = lambda *a, **k: H
    try:
        M.MessageManager.__init__(mm, "", 7111, timecode=timecode, send_msg_timing=send_timing)
    finally:
        M.socket, M.RTMALogger, M.get_header_cls = saved


def _build(n, timecode, send_timing):
    H = header_class(timecode)
    mm = object.__new__(M.MessageManager)
    lc0 = FakeConn(-1)
    _real_init(mm, H, timecode, send_timing, lc0)
    mm._keep_running = False
    mm.ip_address = ""
    mm.port = 7111
    mm.header_cls = H
    mm.header_size = ctypes.sizeof(getattr(H, "_real", H))
    mm.read_timeout = 0.2
    mm.write_timeout = 0
    mm._debug = False
    mm.b_send_msg_timing = send_timing
    mm._logger = NullLogger()
    lc = lc0
    mm.listen_socket = lc
    mm.modules = {}
    mm.next_dynamic_mod_id_offset = 0
    mm.sockets = [lc]
    mm.start_time = 0.0
    mm.t_last_message_count = 0.0
    mm.min_timing_message_period = 0.9
    mm.last_client_info = 0.0
    mm.sending_traffic = contextvars.ContextVar("sending_traffic", default=False)
    mm.traffic_start = 0.0
    mm.traffic_seqno = 1
    mm._uid = n
    mm.wlist = []
    if SHADOW:
        mm.logger_modules = LinearSet()
        mm.subscriptions = LinearDict(LinearSet)
        mm.message_counts = LinearCounter()
        mm.traffic_counter = LinearCounter()
        mm.header_buffer = None
        mm.header_view = H()
        mm.data_buffer = SH.PayloadBuf()
        mm.data_view = ViewStandin(mm)
    else:
        mm.logger_modules = set()
        mm.subscriptions = defaultdict(set)
        mm.message_counts = Counter()
        mm.traffic_counter = Counter()
        mm.header_buffer = bytearray(mm.header_size)
        mm.header_view = memoryview(mm.header_buffer)
        mm.data_buffer = bytearray(1024**2)
        mm.data_view = memoryview(mm.data_buffer)
    mm.mm_module = M.Module(uid=0, conn=lc, address=("", 7111), header_cls=H, name="message_manager",
                            mod_id=0, pid=4242, connected=True, is_logger=False)
    if SHADOW:
        mm.mm_module.subs = LinearSet()
    mm.modules[lc] = mm.mm_module
    mods = []
    for i in range(n):
        c = FakeConn(i)
        m = M.Module(uid=i + 1, conn=c, address=("10.0.0.%d" % (i + 1), 5000 + i), header_cls=H)
        if SHADOW:
            m.subs = LinearSet()
        mm.modules[c] = m
        mods.append(m)
    return mm, mods


def subscribe(mm, m, t):
    """put (module, type) into both indexes, as add_subscription would (Inv I1)"""
    mm.subscriptions[t].add(m)
    m.subs.add(t)


def make_logger(mm, m):
    m.is_logger = True
    mm.logger_modules.add(m)


def set_incoming(mm, hfields, payload=None):
    """stage an incoming frame in the manager's receive buffers.
    hfields: header field name -> value.  payload: None | (core class name, {field: value})"""
    if SHADOW:
        h = mm.header_cls()
        for k, v in hfields.items():
            h.__dict__["$" + k] = v
        mm.header_view = h
        mm.data_buffer = SH.PayloadBuf(**(payload[1] if payload else {}))
        return h
    h = mm.header_cls()
    for k, v in hfields.items():
        setattr(h, "_" + k, v)
    mm.header_buffer[:] = bytes(h)
    if payload:
        cls = getattr(cd, payload[0])
        d = cls()
        for k, v in payload[1].items():
            setattr(d, "_" + k, v)
        b = bytes(d)
        mm.data_buffer[: len(b)] = b
    return mm.header_cls.from_buffer(mm.header_view)


def new_header(mm, **fields):
    """a header object as a client would have sent it (for direct forward_message calls)"""
    h = mm.header_cls()
    for k, v in fields.items():
        if SHADOW:
            h.__dict__["$" + k] = v
        else:
            setattr(h, "_" + k, v)
    return h


def inv_ok(mm):
    """representation invariant I1-I4, I6 of DESIGN.md section 3 (I5 is C06's)"""
    mods = list(mm.modules.values())
    # I1 index and inverse index agree
    for t, s in mm.subscriptions.items():
        for m in s:
            if not _contains(mods, m):
                return False
            if t not in m.subs:
                return False
    for m in mods:
        for t in m.subs:
            if m not in mm.subscriptions[t]:
                return False
        # I2
        if ALL in m.subs and len(m.subs) != 1:
            return False
    # I3
    for m in mm.logger_modules:
        if not _contains(mods, m) or not m.is_logger:
            return False
    for m in mods:
        if m.connected and m.is_logger and m is not mm.mm_module and m not in mm.logger_modules:
            return False
    # I4
    if mm.modules.get(mm.listen_socket) is not mm.mm_module or mm.mm_module.mod_id != 0 or len(mm.mm_module.subs) != 0:
        return False
    for c, m in mm.modules.items():
        if m.conn is not c:
            return False
        if c is not mm.listen_socket and c.closed:
            return False
    # I6 the dynamic-id cursor stays inside the dynamic range (every harness assumes 0 <= cursor <= 99 on the pre-state, so the
    # step has to re-establish it: a cursor that may reach 100 hands out id MAX_MODULES one request later)
    if not (0 <= mm.next_dynamic_mod_id_offset < cd.MAX_MODULES - cd.DYN_MOD_ID_START):
        return False
    return True


def _contains(xs, x):
    for y in xs:
        if y is x:
            return True
    return False
