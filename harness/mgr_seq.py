"""C05: consecutive service steps of the real manager towards shared recipients: per-connection order, whole frames,
gap-free sequence numbers.

shard: steps = list of "A" | "B" (data frame from sender A / B) | "sub0" | "sub1" (recipient sends SUBSCRIBE -> ACK)
               | "timing" | "traffic" | "info" (periodic / manager-originated messages)
       rsub  = per recipient 0: subscribed to tA, 1: to tB, 2: to ALL, 3: to tA and tB
       xdrop = 1: a third module subscribed to tA is not ready, so every A frame also produces a FAILED_MESSAGE
       r0new = 1: recipient 0 has not completed the handshake yet (frames are forwarded to it all the same); a "conn0" step is its
               CONNECT (-> ACK): the numbering of its connection must run on across the handshake
       r0fail = k: recipient 0's connection dies at its k-th sendall (its removal nests a CLIENT_CLOSED inside whatever is being
                delivered; recipient 1, served after it, must still get whole, gap-free frames)
       r0skip = list of step indices at which recipient 0 is NOT ready to accept data (what is due to it then is dropped and
                reported, not written): the frames it does get afterwards must still be numbered without a gap
symbolic: tA, tB (data types), payload sizes nA, nB 0..65535, the recipients' msg_count before the sequence,
          the type subscribed in "subN" steps
"""
from engine import mgrworld as W
from harness.common import sh, set_shard, verdict, reached  # noqa: F401
from pyrtma.validators import disable_message_validation

M = W.M
cd = W.cd
ALL = W.ALL
CTRL_IDS = (cd.MT_CONNECT, cd.MT_CONNECT_V2, cd.MT_DISCONNECT, cd.MT_SUBSCRIBE, cd.MT_UNSUBSCRIBE, cd.MT_PAUSE_SUBSCRIPTION,
            cd.MT_RESUME_SUBSCRIPTION, cd.MT_CLIENT_SET_NAME, cd.MT_MODULE_READY)


def scenario(tA, tB, nA, nB, c0, c1, ts):
    steps = sh("steps")
    rsub = sh("rsub", [2, 2])
    mm, mods = W.build(5)
    R = mods[:2]
    A, B, X = mods[2], mods[3], mods[4]
    for k, m in enumerate(mods):
        m.connected = True
        m.mod_id = 10 + k
    if sh("r0new", 0):
        R[0].connected = False
        R[0].mod_id = 0
    pre = [c0, c1]
    for k in range(2):
        R[k].msg_count = pre[k]
        if rsub[k] in (0, 3):
            W.subscribe(mm, R[k], tA)
        if rsub[k] in (1, 3):
            W.subscribe(mm, R[k], tB)
        if rsub[k] == 2:
            W.subscribe(mm, R[k], ALL)
    mm.wlist = [R[0].conn, R[1].conn, A.conn, B.conn]
    if sh("r0block") is not None:
        R[0].conn.block_at = sh("r0block")     # recipient 0's send buffer fills up: only matters to code that sends non-blockingly
    if sh("r1fail", 0):
        R[1].conn.fail_after = sh("r1fail") - 1
    if sh("r0fail", 0):
        R[0].conn.fail_after = sh("r0fail") - 1     # recipient 0 dies first: what recipient 1 is sent AFTER the failure must still be whole frames
    if sh("xdrop", 0):
        W.subscribe(mm, X, tA)      # X is not in wlist: every A frame is dropped for it -> FAILED_MESSAGE
    with disable_message_validation():
        for i, st in enumerate(steps):
            tag = 100 + i
            if sh("r0skip") is not None:
                mm.wlist = [c for c in (R[0].conn, R[1].conn, A.conn, B.conn) if not (c is R[0].conn and i in sh("r0skip"))]
            if st in ("A", "B"):
                t, n, src = (tA, nA, A) if st == "A" else (tB, nB, B)
                W.set_incoming(mm, dict(msg_type=t, src_mod_id=src.mod_id, dest_mod_id=0, dest_host_id=0, num_data_bytes=n,
                                        reserved=tag, msg_count=77))
                mm.process_message(src)
            elif st in ("sub0", "sub1"):
                r = R[int(st[3])]
                W.set_incoming(mm, dict(msg_type=cd.MT_SUBSCRIBE, src_mod_id=r.mod_id, num_data_bytes=4, reserved=tag),
                               ("MDF_SUBSCRIBE", dict(msg_type=ts)))
                mm.process_message(r)
            elif st == "conn0":
                W.set_incoming(mm, dict(msg_type=cd.MT_CONNECT, src_mod_id=10, num_data_bytes=4, reserved=tag),
                               ("MDF_CONNECT", dict(logger_status=0, daemon_status=0)))
                mm.process_message(R[0])
            elif st == "timing":
                mm.send_timing_message()
            elif st == "traffic":
                mm.send_traffic()
            elif st == "info":
                mm.send_client_info(A)
    for k in range(2):
        c = R[k].conn
        if k == 0 and sh("r0fail", 0):
            continue
        if k == 1 and sh("r1fail", 0):
            # a frame may be cut only by a send failure, and then the connection is closed and forgotten
            if len(c.calls) > sh("r1fail") - 1:
                return False, "bytes were written after the failing send"
            if c.ok_calls >= sh("r1fail") - 1 and c.fail_after is not None and len(c.calls) == sh("r1fail") - 1:
                attempted = c.closed
                if W._contains(list(mm.modules.values()), R[1]) == c.closed:
                    return False, "table and connection state disagree after a cut frame"
            continue
        # whole frames: header then exactly the declared number of payload bytes
        try:
            frames = c.frames()
        except AssertionError as e:
            return False, "recipient %d: %s" % (k, e)
        last_tag = 0
        for j, (hd, p) in enumerate(frames):
            if W.plen(p) != hd["num_data_bytes"]:
                return False, "recipient %d frame %d: payload length differs from the declared num_data_bytes" % (k, j)
            if hd["msg_count"] != pre[k] + j + 1:
                return False, "recipient %d frame %d: sequence number is not previous+1" % (k, j)
            if hd["src_mod_id"] != 0:   # a client's data frame: tags must appear in step order
                if not (hd["reserved"] > last_tag):
                    return False, "recipient %d: frames out of sending order" % k
                last_tag = hd["reserved"]
        if R[k].msg_count != pre[k] + len(frames):
            return False, "recipient %d: counter and frames disagree" % k
    return True, ""


def _pre(tA, tB, nA, nB, c0, c1, ts):
    if tA in CTRL_IDS or tB in CTRL_IDS:
        return False
    return True


def seq(tA: int, tB: int, nA: int, nB: int, c0: int, c1: int, ts: int) -> bool:
    """
    pre: -2**31 <= tA < 2**31 and -2**31 <= tB < 2**31 and tA != 2147483647 and tB != 2147483647
    pre: 0 <= nA <= 65535 and 0 <= nB <= 65535 and 0 <= c0 < 2**30 and 0 <= c1 < 2**30 and -2**31 <= ts < 2**31
    pre: _pre(tA, tB, nA, nB, c0, c1, ts)
    post: _
    """
    return verdict(scenario(tA, tB, nA, nB, c0, c1, ts))


def seq_reach(tA: int, tB: int, nA: int, nB: int, c0: int, c1: int, ts: int) -> bool:
    """
    pre: -2**31 <= tA < 2**31 and -2**31 <= tB < 2**31 and tA != 2147483647 and tB != 2147483647
    pre: 0 <= nA <= 65535 and 0 <= nB <= 65535 and 0 <= c0 < 2**30 and 0 <= c1 < 2**30 and -2**31 <= ts < 2**31
    pre: _pre(tA, tB, nA, nB, c0, c1, ts)
    post: _
    """
    return reached(scenario(tA, tB, nA, nB, c0, c1, ts))
