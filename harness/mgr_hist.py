"""C01 (bounded histories): the real manager services a short history from its initial state, and every publish must reach
exactly the modules subscribed at that moment.

The one-step lemmas (harness/c01_fwd.py, mgr_step.py) quantify over every state built from the manager's *known* tables; a
routing decision that also depends on something outside them (a recipient list cached per message type, say) is invisible to a
single step and shows only when a publish follows a subscription change that follows a publish.  This harness runs such
histories through the real process_message.

shard: steps = list of
          "pT" | "pU"                 the publisher publishes a frame of type T / U (destination 0)
          "s0T" "u0T" "z0T" "r0T"     module 0 sends SUBSCRIBE / UNSUBSCRIBE / PAUSE_SUBSCRIPTION / RESUME_SUBSCRIPTION for T (also "..U")
          "s1A" "u1A" "z1A" "r1A"     module 1 does the same for ALL_MESSAGE_TYPES
       module 0 only ever names individual types and module 1 only ALL, so "subscribed at that moment" needs no
       interpretation: SUBSCRIBE / RESUME add, UNSUBSCRIBE / PAUSE remove (the manager-level protocol)
symbolic: T, U (any int32 except the sentinel and the control ids; they may coincide), payload size
"""
from engine import mgrworld as W
from harness.common import sh, set_shard, verdict, reached  # noqa: F401
from pyrtma.validators import disable_message_validation

M = W.M
cd = W.cd
ALL = W.ALL
CTRL = {"s": ("SUBSCRIBE", cd.MT_SUBSCRIBE), "u": ("UNSUBSCRIBE", cd.MT_UNSUBSCRIBE), "z": ("PAUSE_SUBSCRIPTION", cd.MT_PAUSE_SUBSCRIPTION),
        "r": ("RESUME_SUBSCRIPTION", cd.MT_RESUME_SUBSCRIPTION)}
CTRL_IDS = (cd.MT_CONNECT, cd.MT_CONNECT_V2, cd.MT_DISCONNECT, cd.MT_SUBSCRIBE, cd.MT_UNSUBSCRIBE, cd.MT_PAUSE_SUBSCRIPTION,
            cd.MT_RESUME_SUBSCRIPTION, cd.MT_CLIENT_SET_NAME, cd.MT_MODULE_READY, cd.MT_ACKNOWLEDGE)


def scenario(T, U, n):
    steps = sh("steps")
    mm, mods = W.build(3)
    R0, R1, P = mods
    for k, m in enumerate(mods):
        m.connected = True
        m.mod_id = 10 + k
    mm.wlist = [m.conn for m in mods]
    sub0 = []       # reference model: the individual types module 0 is subscribed to (compared by value)
    all1 = False    # module 1 subscribed to all types
    expect = []     # (tag, module 0 must get it, module 1 must get it)
    with disable_message_validation():
        for i, st in enumerate(steps):
            tag = 100 + i
            if st[0] == "p":
                t = T if st[1] == "T" else U
                W.set_incoming(mm, dict(msg_type=t, src_mod_id=P.mod_id, dest_mod_id=0, dest_host_id=0, num_data_bytes=n, reserved=tag, msg_count=7))
                try:
                    mm.process_message(P)
                except Exception as e:
                    return False, "step %d (%s): process_message raised %s: %s" % (i, st, type(e).__name__, e)
                want0 = False
                for x in sub0:
                    if x == t:
                        want0 = True
                expect.append((tag, want0, all1))
            else:
                who = R0 if st[1] == "0" else R1
                t = ALL if st[2] == "A" else (T if st[2] == "T" else U)
                name, mt = CTRL[st[0]]
                W.set_incoming(mm, dict(msg_type=mt, src_mod_id=who.mod_id, num_data_bytes=4, reserved=tag), ("MDF_" + name, dict(msg_type=t)))
                try:
                    mm.process_message(who)
                except Exception as e:
                    return False, "step %d (%s): process_message raised %s: %s" % (i, st, type(e).__name__, e)
                add = st[0] in ("s", "r")
                if who is R1:
                    all1 = add
                else:
                    sub0 = [x for x in sub0 if not (x == t)]
                    if add:
                        sub0.append(t)
    for k, m in enumerate((R0, R1, P)):
        try:
            frames = m.conn.frames()
        except AssertionError as e:
            return False, "module %d: %s" % (k, e)
        got = [hd["reserved"] for hd, p in frames if hd["src_mod_id"] != 0]
        want = [tag for tag, w0, w1 in expect if (k == 0 and w0) or (k == 1 and w1)]
        if len(got) != len(want):
            return False, "module %d received %d published frames, %d were due (history %s)" % (k, len(got), len(want), "".join(steps))
        for a, b in zip(got, want):
            if a != b:
                return False, "module %d received another publish than the one due" % k
    if not W.inv_ok(mm):
        return False, "Inv broken after the history"
    return True, ""


def _pre(T, U, n):
    return T not in CTRL_IDS and U not in CTRL_IDS


def hist(T: int, U: int, n: int) -> bool:
    """
    pre: -2**31 <= T < 2**31 and -2**31 <= U < 2**31 and T != 2147483647 and U != 2147483647 and 0 <= n <= 65535
    pre: _pre(T, U, n)
    post: _
    """
    return verdict(scenario(T, U, n))


def hist_reach(T: int, U: int, n: int) -> bool:
    """
    pre: -2**31 <= T < 2**31 and -2**31 <= U < 2**31 and T != 2147483647 and U != 2147483647 and 0 <= n <= 65535
    pre: _pre(T, U, n)
    post: _
    """
    return reached(scenario(T, U, n))
