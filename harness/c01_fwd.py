"""C01: real MessageManager.forward_message / process_message (default branch) from an arbitrary Inv state.

shard: n (recipients), rec: list of [is_logger, subkind(0 none,1 type,2 ALL), writable], timecode, self_pub, via (fwd|proc)
symbolic: msg_type, dest_mod, dest_host, src_mod, src_host, nbytes, ids of the recipients
"""
from typing import List

from engine import mgrworld as W
from harness.common import sh, set_shard, verdict, reached  # noqa: F401
from pyrtma.validators import disable_message_validation

M = W.M
cd = W.cd
ALL = W.ALL
CONTROL = (cd.MT_CONNECT, cd.MT_CONNECT_V2, cd.MT_DISCONNECT, cd.MT_SUBSCRIBE, cd.MT_UNSUBSCRIBE,
           cd.MT_PAUSE_SUBSCRIPTION, cd.MT_RESUME_SUBSCRIPTION, cd.MT_CLIENT_SET_NAME, cd.MT_MODULE_READY)


def scenario(msg_type, dest_mod, dest_host, src_mod, src_host, nbytes, id0, id1, id2):
    rec = sh("rec")
    n = len(rec)
    ids = [id0, id1, id2][:n]
    via = sh("via", "fwd")
    mm, mods = W.build(n + 1, timecode=bool(sh("timecode", 0)))
    sender = mods[n]
    sender.mod_id = 77
    sender.connected = True
    for k in range(n):
        m = mods[k]
        lg, sk, wr = rec[k]
        m.mod_id = ids[k]
        m.connected = True
        if lg:
            W.make_logger(mm, m)
        if sk == 1:
            W.subscribe(mm, m, msg_type)
        elif sk == 2:
            W.subscribe(mm, m, ALL)
        if wr:
            mm.wlist.append(m.conn)
    if sh("self_pub", 0):
        sender = mods[0]
    # FAILED_MESSAGE generation for dropped recipients is C14's subject; here it is cut (recorded as outside C01)
    mm.send_failed_message = lambda *a, **k: None
    hf = dict(msg_type=msg_type, dest_mod_id=dest_mod, dest_host_id=dest_host, src_mod_id=src_mod,
              src_host_id=src_host, num_data_bytes=nbytes, msg_count=5, remaining_bytes=0, is_dynamic=0, reserved=0)
    with disable_message_validation():
        if via == "fwd":
            h = W.new_header(mm, **hf)
            payload = b"\x07" * 3 if not W.SHADOW else W.PayloadSlice(0, nbytes)
            if not W.SHADOW:
                payload = bytes(nbytes)
            mm.forward_message(sender, h, payload)
        else:
            W.set_incoming(mm, hf)
            payload = None
            mm.process_message(sender)
    valid = (0 <= dest_mod <= cd.MAX_MODULES) and (0 <= dest_host <= cd.MAX_HOSTS)
    for k in range(n):
        m = mods[k]
        lg, sk, wr = rec[k]
        exp = valid and sk != 0 and (wr or lg) and (dest_mod == 0 or ids[k] == dest_mod or lg)
        try:
            frames = m.conn.frames()
        except AssertionError as e:
            return False, "recipient %d: %s" % (k, e)
        got = []
        for hd, p in frames:
            if via == "fwd":
                mine = p[1] is payload
            else:
                # published payload = the slice [0:nbytes] of the receive buffer
                if W.SHADOW:
                    mine = isinstance(p[1], W.PayloadSlice)
                else:
                    mine = isinstance(p[1], memoryview)
            if mine:
                got.append((hd, p))
        if exp:
            if len(got) != 1:
                return False, "recipient %d expected exactly one copy, got %d" % (k, len(got))
            hd, p = got[0]
            if not (hd["msg_type"] == msg_type and hd["src_mod_id"] == src_mod and hd["src_host_id"] == src_host
                    and hd["dest_mod_id"] == dest_mod and hd["dest_host_id"] == dest_host
                    and hd["num_data_bytes"] == nbytes):
                return False, "recipient %d: header altered" % k
            if via == "proc":
                if W.SHADOW:
                    if not ((p[1].start is None or p[1].start == 0) and p[1].stop == nbytes):
                        return False, "payload slice is not [0:num_data_bytes]"
                elif len(p[1]) != nbytes:
                    return False, "payload length differs"
            elif W.plen(p) != nbytes:
                return False, "payload length differs"
        elif len(got) != 0:
            return False, "recipient %d must not receive the message" % k
    if not sh("self_pub", 0) and len(sender.conn.calls) != 0:
        return False, "sender received something"
    return True, ""


def _pre(msg_type, dest_mod, dest_host, src_mod, src_host, nbytes, id0, id1, id2):
    n = len(sh("rec"))
    if sh("via", "fwd") == "proc" and msg_type in CONTROL:
        return False
    return 0 <= id0 <= 199 and 0 <= id1 <= 199 and 0 <= id2 <= 199


def fwd(msg_type: int, dest_mod: int, dest_host: int, src_mod: int, src_host: int, nbytes: int, id0: int, id1: int, id2: int) -> bool:
    """
    pre: -2**31 <= msg_type < 2**31 and msg_type != 2147483647
    pre: -2**15 <= dest_mod < 2**15 and -2**15 <= dest_host < 2**15
    pre: -2**15 <= src_mod < 2**15 and -2**15 <= src_host < 2**15
    pre: 0 <= nbytes <= 65535
    pre: _pre(msg_type, dest_mod, dest_host, src_mod, src_host, nbytes, id0, id1, id2)
    post: _
    """
    return verdict(scenario(msg_type, dest_mod, dest_host, src_mod, src_host, nbytes, id0, id1, id2))


def fwd_reach(msg_type: int, dest_mod: int, dest_host: int, src_mod: int, src_host: int, nbytes: int, id0: int, id1: int, id2: int) -> bool:
    """
    pre: -2**31 <= msg_type < 2**31 and msg_type != 2147483647
    pre: -2**15 <= dest_mod < 2**15 and -2**15 <= dest_host < 2**15
    pre: -2**15 <= src_mod < 2**15 and -2**15 <= src_host < 2**15
    pre: 0 <= nbytes <= 65535
    pre: _pre(msg_type, dest_mod, dest_host, src_mod, src_host, nbytes, id0, id1, id2)
    post: _
    """
    return reached(scenario(msg_type, dest_mod, dest_host, src_mod, src_host, nbytes, id0, id1, id2))
