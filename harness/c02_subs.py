"""C02: real Client subscription API composed with the real manager handlers.

The control frames the real client emits are captured at Client.send_message and fed, in emission order, to the real
MessageManager.process_message acting on the Module that stands for that client.

shard: pre   = per universe member 0 none | 1 subscribed | 2 paused  (3 members)  or "all" (subscribed to all)
       op    = subscribe | unsubscribe | pause_subscription | resume_subscription | unsubscribe_from_all |
               pause_all_subscriptions | resume_all_subscriptions | subscription_context | paused_subscription_context
       n     = length of the argument list (0..3)
       order = fwd | rev | rot   (iteration order of the hash-free set stand-in)
symbolic: the universe u0,u1,u2 (pairwise distinct int32, none is ALL), the list elements a0..a2 (any int32, may coincide with
          each other, with universe members or with ALL_MESSAGE_TYPES), the probe id
"""
from engine import mgrworld as W
from engine import cliworld as CW
from engine import standins
from harness.common import sh, set_shard, verdict, reached  # noqa: F401
from pyrtma.validators import disable_message_validation

M = W.M
C = CW.C
cd = W.cd
ALL = W.ALL
OPS_LIST = ("subscribe", "unsubscribe", "pause_subscription", "resume_subscription")
OPS_BULK = ("unsubscribe_from_all", "pause_all_subscriptions", "resume_all_subscriptions")
OPS_CTX = ("subscription_context", "paused_subscription_context")
CTRL_NAME = {cd.MT_SUBSCRIBE: "MDF_SUBSCRIBE", cd.MT_UNSUBSCRIBE: "MDF_UNSUBSCRIBE",
             cd.MT_PAUSE_SUBSCRIPTION: "MDF_PAUSE_SUBSCRIPTION", cd.MT_RESUME_SUBSCRIPTION: "MDF_RESUME_SUBSCRIPTION"}


class FakeSock:
    def close(self):
        pass


def build(us):
    standins.ORDER = sh("order", "fwd")
    pre = sh("pre")
    c = CW.new_client(module_id=10)
    c._sock = FakeSock()
    mm, mods = W.build(1)
    mod = mods[0]
    mod.connected = True
    mod.mod_id = 10
    mm.wlist = [mod.conn]
    if pre == "all":
        c._sub_all = True
        c._subscribed_types = CW.mkset([ALL])
        W.subscribe(mm, mod, ALL)
    else:
        for k in range(3):
            if pre[k] == 1:
                c._subscribed_types.add(us[k])
                W.subscribe(mm, mod, us[k])
            elif pre[k] == 2:
                c._paused_types.add(us[k])
    sent = []

    def send_message(msg_data, *a, **k):
        sent.append((msg_data.type_id, msg_data.msg_type))

    c.send_message = send_message
    return c, mm, mod, sent


def feed(mm, mod, sent):
    """deliver the captured control frames to the real manager, in emission order"""
    with disable_message_validation():
        for tid, mt in sent:
            W.set_incoming(mm, dict(msg_type=tid, src_mod_id=10, num_data_bytes=4), (CTRL_NAME[tid], dict(msg_type=mt)))
            mm.process_message(mod)
    del sent[:]


def delivers(mm, mod, t):
    return (mod in mm.subscriptions[t]) or (mod in mm.subscriptions[ALL])


def snapshot(c, mm, mod, us, probe):
    """observable state over the universe + probe: (client subscribed?, client paused?, manager delivers?) per id"""
    out = []
    for t in list(us) + [probe]:
        out.append((t in c.subscribed_types, t in c.paused_subscribed_types, delivers(mm, mod, t)))
    return out, c._sub_all


def agree(c, mm, mod, us, probe):
    for t in list(us) + [probe]:
        says = (t in c.subscribed_types) or c._sub_all
        if says != delivers(mm, mod, t):
            return False, "client reports subscribed=%s but the manager delivers=%s" % (says, delivers(mm, mod, t))
        if (t in c.paused_subscribed_types) and delivers(mm, mod, t):
            return False, "a paused type is delivered"
        if (t in c.subscribed_types) and (t in c.paused_subscribed_types):
            return False, "a type is both subscribed and paused"
    if not W.inv_ok(mm):
        return False, "manager Inv broken"
    return True, ""


def scenario(u0, u1, u2, a0, a1, a2, probe):
    us = [u0, u1, u2]
    op = sh("op")
    n = sh("n", 1)
    args = [a0, a1, a2][:n]
    c, mm, mod, sent = build(us)
    try:
        ok, why = agree(c, mm, mod, us, probe)
        if not ok:
            return False, "harness pre-state does not agree: " + why
        before = snapshot(c, mm, mod, us, probe)
        was_all = c._sub_all
        if op in OPS_CTX:
            cm = getattr(c, op)(list(args))
            try:
                cm.__enter__()
            except C.InvalidSubscription:
                # individual changes while subscribed to all: refused, nothing emitted, nothing changed
                if not was_all:
                    return False, "context refused although the client is not subscribed to all"
                if len(sent) != 0 or snapshot(c, mm, mod, us, probe) != before:
                    return False, "refused context still had an effect"
                return True, ""
            if was_all:
                return False, "context with individual types was not refused while subscribed to all"
            feed(mm, mod, sent)
            ok, why = agree(c, mm, mod, us, probe)
            if not ok:
                return False, "inside the context: " + why
            cm.__exit__(None, None, None)
            feed(mm, mod, sent)
            after = snapshot(c, mm, mod, us, probe)
            if after != before:
                return False, "leaving the context did not restore the subscribed/paused sets of entry"
            return agree(c, mm, mod, us, probe)
        refused = False
        try:
            if op in OPS_LIST:
                getattr(c, op)(list(args))
            else:
                getattr(c, op)()
        except C.InvalidSubscription:
            refused = True
        if op in OPS_LIST:
            has_all = False
            for a in args:
                if a == ALL:
                    has_all = True
            must_refuse = was_all and not has_all
        else:
            must_refuse = False   # bulk variants operate on the client's own sets
        if refused:
            if len(sent) != 0:
                return False, "refused operation still emitted control frames"
            if snapshot(c, mm, mod, us, probe) != before:
                return False, "refused operation changed state"
            if not must_refuse and not (was_all and op in OPS_BULK):
                return False, "operation refused although it is applicable"
            return True, ""
        if must_refuse:
            return False, "individual change while subscribed to all was not refused"
        feed(mm, mod, sent)
        return agree(c, mm, mod, us, probe)
    finally:
        c._connected = False


def _pre(u0, u1, u2, a0, a1, a2, probe):
    n = sh("n", 1)
    a = [a0, a1, a2]
    for k in range(3):
        if k >= n and a[k] != 0:
            return False
    if sh("op") in OPS_CTX:
        for k in range(n):
            if a[k] == ALL:
                return False   # the statement covers contexts entered with lists of individual types
    return True


def subs(u0: int, u1: int, u2: int, a0: int, a1: int, a2: int, probe: int) -> bool:
    """
    pre: -2**31 <= u0 < 2**31 - 1 and -2**31 <= u1 < 2**31 - 1 and -2**31 <= u2 < 2**31 - 1
    pre: u0 != u1 and u0 != u2 and u1 != u2
    pre: -2**31 <= a0 < 2**31 and -2**31 <= a1 < 2**31 and -2**31 <= a2 < 2**31 and -2**31 <= probe < 2**31 - 1
    pre: _pre(u0, u1, u2, a0, a1, a2, probe)
    post: _
    """
    return verdict(scenario(u0, u1, u2, a0, a1, a2, probe))


def subs_reach(u0: int, u1: int, u2: int, a0: int, a1: int, a2: int, probe: int) -> bool:
    """
    pre: -2**31 <= u0 < 2**31 - 1 and -2**31 <= u1 < 2**31 - 1 and -2**31 <= u2 < 2**31 - 1
    pre: u0 != u1 and u0 != u2 and u1 != u2
    pre: -2**31 <= a0 < 2**31 and -2**31 <= a1 < 2**31 and -2**31 <= a2 < 2**31 and -2**31 <= probe < 2**31 - 1
    pre: _pre(u0, u1, u2, a0, a1, a2, probe)
    post: _
    """
    return reached(scenario(u0, u1, u2, a0, a1, a2, probe))
