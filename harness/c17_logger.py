"""C17: the data logger loses, duplicates and reorders nothing.

The recording thread (update / trigger_write / pause / resume / stop) and the background writer thread (write) of the real
DataCollection run as coroutine twins (engine/cotwin.py: regenerated from the current source, yielding at every
threading.Event operation) under a scheduler whose choices are symbolic.  Everything else - DataSet, the formatters, the
quicklogger reader - is the repository's code on real files in a scratch directory.

shard: fmt = "raw" | "json" | "quicklogger"; n = number of messages (0..4); nsets = 1 | 2 data sets;
       pause = index of the message around which the recorder pauses (-1: never)
symbolic: the schedule (one bit wherever both threads are enabled), per message a "flush deadline passed" bit and a
          "subdivision deadline passed" bit
"""
import io
import json
import logging
import os
import pathlib
import shutil
import sys
import tempfile

import pyrtma
import pyrtma.data_logger  # noqa: F401  (registers the formatters)
import pyrtma.data_logger.data_collection as DC
import pyrtma.data_logger.data_set as DS
from pyrtma.data_logger.metadata import LoggingMetadata
from pyrtma.data_logger.data_formatter import get_formatter
from pyrtma import core_defs as cd
from pyrtma.message import Message
from pyrtma.header import MessageHeader

from engine import cotwin, realinit
from engine.shadow import NoTracing
from harness.common import sh, set_shard, verdict, reached  # noqa: F401

import os as _os
import threading

REAL = _os.environ.get("VERIF_BACKEND", "shadow") == "real"
DC.print = lambda *a, **k: None
CO, GENS, NOPS = cotwin.build()
for _n, _f in CO.items():
    setattr(DC.DataCollection, "co_" + _n, _f)


# ---------------------------------------------------------------- replay with real threads (VERIF_BACKEND=real)
class Controller:
    """hands the turn to one real thread at a time, at the granularity of Event operations, following the schedule bits"""

    def __init__(self):
        self.cv = threading.Condition()
        self.parked = {}        # role -> (event, op)
        self.grant = None
        self.finished = set()
        self.closing = False

    def point(self, ev, op):
        role = threading.current_thread().name
        with self.cv:
            self.parked[role] = (ev, op)
            self.cv.notify_all()
            while self.grant != role:
                self.cv.wait()
            self.grant = None
            del self.parked[role]
            closing = self.closing
        return closing

    def done(self):
        with self.cv:
            self.finished.add(threading.current_thread().name)
            self.cv.notify_all()


class CtlEvent:
    """threading.Event whose every operation is a scheduling point of the Controller"""

    def __init__(self, ctl):
        self.ctl = ctl
        self.ev = threading.Event()

    def set(self):
        self.ctl.point(self, "set")
        self.ev.set()

    def clear(self):
        self.ctl.point(self, "clear")
        self.ev.clear()

    def is_set(self):
        self.ctl.point(self, "is_set")
        return self.ev.is_set()

    def wait(self, timeout=None):
        self.ctl.point(self, "wait")     # granted only when the event is set, or when shutting down (then: a timeout)
        return self.ev.is_set()


def real_run(c, n, flush, subdiv, pause_at, sched):
    """the same scenario with the UNREWRITTEN DataCollection methods on two real threads"""
    ctl = Controller()
    c.write_to_disk = CtlEvent(ctl)
    c.write_finished = CtlEvent(ctl)

    def rec_body():
        try:
            if sh("restart", 0):
                c.update(MSGS[4])
                c.stop()
                for k, ds in enumerate(c.datasets):
                    ds.file_name_fmt = "second%d" % k
                c.start()
            for i in range(n):
                if flush[i]:
                    Clock.t += 20.0
                if subdiv[i]:
                    Clock.t += 40.0
                if pause_at == i:
                    c.pause()
                c.update(MSGS[i])
                if pause_at == i:
                    c.resume()
            c.stop()
        finally:
            ctl.done()

    def wr_body():
        try:
            c.write()
        finally:
            ctl.done()

    rec = threading.Thread(target=rec_body, name="rec", daemon=True)
    wr = threading.Thread(target=wr_body, name="wr", daemon=True)
    rec.start()
    wr.start()
    k = 0
    status = None
    import time as _t
    deadline = _t.time() + 30
    with ctl.cv:
        while True:
            # wait until every live thread is parked at a point
            while not all((r in ctl.parked or r in ctl.finished) for r in ("rec", "wr")):
                if not ctl.cv.wait(timeout=1.0) and _t.time() > deadline:
                    return "replay stuck"
            if "rec" in ctl.finished and not ctl.closing:
                ctl.closing = True
                c._close = True
            if "rec" in ctl.finished and "wr" in ctl.finished:
                return "done"

            def enabled(role):
                if role in ctl.finished or role not in ctl.parked:
                    return False
                ev, op = ctl.parked[role]
                return op != "wait" or ev.ev.is_set() or ctl.closing
            er, ew = enabled("rec"), enabled("wr")
            if er and ew:
                if k >= len(sched):
                    return "budget"
                pick = "wr" if sched[k] else "rec"
                k += 1
            elif er:
                pick = "rec"
            elif ew:
                pick = "wr"
            else:
                return "deadlock"
            ctl.grant = pick
            ctl.cv.notify_all()
            while ctl.grant is not None:
                ctl.cv.wait(timeout=1.0)
                if _t.time() > deadline:
                    return "replay stuck"


class Clock:
    t = 1000.0

    def time(self):
        return Clock.t


DC.time = Clock()
import pyrtma.data_logger.formatters.quicklogger as QLF  # noqa: E402


class TmpShim:
    """tempfile as seen from the quicklogger formatter: the real call, made outside CrossHair's tracer
    (tempfile draws its names from `random`, which CrossHair would make symbolic)"""

    def NamedTemporaryFile(self, *a, **k):
        with NoTracing():
            return tempfile.NamedTemporaryFile(*a, **k)


QLF.tempfile = TmpShim()
logging.getLogger("data_logger").disabled = True
logging.getLogger("data_logger").propagate = False
STUBS = ["threading.Event objects of DataCollection -> flags owned by the scheduler; methods touching them -> generator twins rebuilt from the source (engine/cotwin.py)",
         "data_collection.time.time -> harness clock (deadlines pass when the harness advances it)", "writer thread -> generator; write_thread.is_alive() -> True",
         "files -> real files in a scratch directory under the system temp dir"]


def mk_msgs(n):
    out = []
    for i in range(n):
        h = MessageHeader()
        if i % 2 == 0:
            d = cd.MDF_MODULE_READY()
            d.pid = 100 + i
        else:
            d = cd.MDF_CLIENT_SET_NAME()
            d.name = "m%d" % i
        h.msg_type = d.type_id
        h.num_data_bytes = d.type_size
        h.msg_count = i + 1
        h.src_mod_id = 10 + i
        h.version = d.type_hash
        out.append(Message(h, d))
    return out


MSGS = mk_msgs(5)


class FakeThread:
    def start(self):
        pass

    def is_alive(self):
        return True

    def join(self):
        pass


def mk_collection(root, fmt, nsets):
    md = LoggingMetadata()
    # the repository's own __init__ (threads and logging stubbed): every attribute of the current source exists
    c = realinit.data_collection(DC, root, md, cotwin.Flag, FakeThread)
    c._dead = True
    c.write_to_disk = cotwin.Flag()
    c.write_finished = cotwin.Flag()
    c.base_path = pathlib.Path(root)
    c.save_path = pathlib.Path(root)
    c.use_thread = True
    c.write_thread = FakeThread()
    fcls = get_formatter(fmt)
    sets = []
    for k in range(nsets):
        types = [cd.ALL_MESSAGE_TYPES] if k == 0 else [cd.MT_MODULE_READY]
        ds = DS.DataSet("c", "set%d" % k, "sub%d" % k, "file%d" % k, fcls, 30, types, md)
        c.add_data_set(ds)
        sets.append(ds)
    c.start()
    return c, sets


def _do(c, name, *args):
    """call a DataCollection method from the recording thread: through its generator twin when the current source makes it
    (transitively) touch the two events - whichever methods those are in this tree - and directly otherwise"""
    if name in CO:
        return (yield from getattr(c, "co_" + name)(*args))
    return getattr(c, name)(*args)


def recorder(c, n, flush, subdiv, pause_at):
    if sh("restart", 0):
        # a first recording of one message on the same collection / data set objects, stopped, then recording starts again
        yield from _do(c, "update", MSGS[4])
        yield from _do(c, "stop")
        for k, ds in enumerate(c.datasets):
            ds.file_name_fmt = "second%d" % k       # the real logger's file names carry a timestamp: a new name per recording
        yield from _do(c, "start")
    for i in range(n):
        if flush[i]:
            Clock.t += 20.0          # past the periodic flush deadline (WRITE_PERIOD 15 s)
        if subdiv[i]:
            Clock.t += 40.0          # past the subdivision deadline (interval 30 s)
        if pause_at == i:
            yield from _do(c, "pause")
        yield from _do(c, "update", MSGS[i])
        if pause_at == i:
            yield from _do(c, "resume")
    yield from _do(c, "stop")


def run(c, n, flush, subdiv, pause_at, sched):
    rec = cotwin.Thread(recorder(c, n, flush, subdiv, pause_at))
    wr = cotwin.Thread(c.co_write())
    # both threads run to their first Event operation (no shared effect before it): no scheduling decision is consumed
    wr.step(c)
    rec.step(c)
    k = 0
    while not rec.done:
        er, ew = rec.enabled(c, False), wr.enabled(c, False)
        if er and ew:
            if k >= len(sched):
                return "budget"
            pick_w = sched[k]
            k += 1
        elif er:
            pick_w = False
        elif ew:
            pick_w = True
        else:
            return "deadlock"
        (wr if pick_w else rec).step(c)
    c._close = True                 # stop() has returned: let the writer drain and exit
    guard = 0
    while not wr.done and guard < 60:
        wr.step(c)
        guard += 1
    return "done" if wr.done else "writer never exits"


def files_of(root, k):
    d = pathlib.Path(root) / "coll" / ("sub%d" % k)
    return sorted(d.iterdir(), key=lambda p: (len(p.name), p.name)) if d.exists() else []


def read_back(fmt, paths):
    """the messages found in the files, as comparable records"""
    out = []
    for p in paths:
        if fmt == "raw":
            out.append(("raw", p.read_bytes()))
        elif fmt == "json":
            for line in p.read_text().splitlines():
                out.append(("json", json.loads(line)))
        else:
            from pyrtma.utils.quicklogger_reader import QLReader
            r = QLReader()
            r.load(str(p), cd.__file__)
            for h, d in zip(r.headers, r.data):
                out.append(("ql", bytes(h), bytes(d)))
    return out


def expect(fmt, msgs):
    if fmt == "raw":
        return b"".join(bytes(m.header) + bytes(m.data) for m in msgs)
    if fmt == "json":
        return [("json", json.loads(m.to_json(minify=True))) for m in msgs]
    return [("ql", bytes(m.header), bytes(m.data)) for m in msgs]


def scenario(flush, subdiv, sched):
    fmt = sh("fmt", "raw")
    n = sh("n", 3)
    nsets = sh("nsets", 1)
    pause_at = sh("pause", -1)
    Clock.t = 1000.0
    with NoTracing():
        root = tempfile.mkdtemp(prefix="verif_c17_")
    try:
        c, sets = mk_collection(root, fmt, nsets)
        st = real_run(c, n, flush, subdiv, pause_at, sched) if REAL else run(c, n, flush, subdiv, pause_at, sched)
        if st == "budget":
            return True, "schedule budget exhausted (outside the bound)"
        if st != "done":
            return False, st
        with NoTracing():
            for k, ds in enumerate(sets):
                sel = [MSGS[i] for i in range(n) if i != pause_at and (k == 0 or MSGS[i].type_id == cd.MT_MODULE_READY)]
                paths = files_of(root, k)
                if sh("restart", 0):
                    first = [p for p in paths if p.name.startswith("file")]
                    paths = [p for p in paths if p.name.startswith("second")]
                    sel1 = [MSGS[4]] if (k == 0 or MSGS[4].type_id == cd.MT_MODULE_READY) else []
                    got1 = read_back(fmt, first)
                    if fmt == "raw":
                        got1 = b"".join(x[1] for x in got1)
                    if got1 != expect(fmt, sel1):
                        return False, "data set %d: the first recording's files do not hold exactly its messages" % k
                got = read_back(fmt, paths)
                want = expect(fmt, sel)
                if fmt == "raw":
                    got = b"".join(x[1] for x in got)
                if got != want:
                    ng = len(got) // 1 if fmt != "raw" else len(got)
                    return False, "data set %d (%s): files hold %s records/bytes, %s were handed to the recorder while recording" % (
                        k, fmt, ng, len(want))
        return True, ""
    finally:
        with NoTracing():
            for ds in (sets if "sets" in dir() else []):
                try:
                    ds.close()
                except Exception:
                    pass
            shutil.rmtree(root, ignore_errors=True)


def log(f0: bool, f1: bool, f2: bool, f3: bool, s0: bool, s1: bool, s2: bool, s3: bool,
        b0: bool, b1: bool, b2: bool, b3: bool, b4: bool, b5: bool, b6: bool, b7: bool, b8: bool, b9: bool,
        b10: bool, b11: bool, b12: bool, b13: bool, b14: bool, b15: bool, b16: bool, b17: bool, b18: bool, b19: bool) -> bool:
    """
    pre: _pre(f0, f1, f2, f3, s0, s1, s2, s3, b0, b1, b2, b3, b4, b5, b6, b7, b8, b9, b10, b11, b12, b13, b14, b15, b16, b17, b18, b19)
    post: _
    """
    return verdict(scenario([f0, f1, f2, f3], [s0, s1, s2, s3],
                            [b0, b1, b2, b3, b4, b5, b6, b7, b8, b9, b10, b11, b12, b13, b14, b15, b16, b17, b18, b19][:sh("bits", 14)]))


def log_reach(f0: bool, f1: bool, f2: bool, f3: bool, s0: bool, s1: bool, s2: bool, s3: bool,
              b0: bool, b1: bool, b2: bool, b3: bool, b4: bool, b5: bool, b6: bool, b7: bool, b8: bool, b9: bool,
              b10: bool, b11: bool, b12: bool, b13: bool, b14: bool, b15: bool, b16: bool, b17: bool, b18: bool, b19: bool) -> bool:
    """
    pre: _pre(f0, f1, f2, f3, s0, s1, s2, s3, b0, b1, b2, b3, b4, b5, b6, b7, b8, b9, b10, b11, b12, b13, b14, b15, b16, b17, b18, b19)
    post: _
    """
    return reached(scenario([f0, f1, f2, f3], [s0, s1, s2, s3],
                            [b0, b1, b2, b3, b4, b5, b6, b7, b8, b9, b10, b11, b12, b13, b14, b15, b16, b17, b18, b19][:sh("bits", 14)]))


def _pre(f0, f1, f2, f3, s0, s1, s2, s3, b0, b1, b2, b3, b4, b5, b6, b7, b8, b9, b10, b11, b12, b13, b14, b15, b16, b17, b18, b19):
    n = sh("n", 3)
    fl, sd = [f0, f1, f2, f3], [s0, s1, s2, s3]
    for i in range(4):
        if i >= n and (fl[i] or sd[i]):
            return False
        if not sh("subdiv", 0) and sd[i]:
            return False
    bits = [b0, b1, b2, b3, b4, b5, b6, b7, b8, b9, b10, b11, b12, b13, b14, b15, b16, b17, b18, b19]
    for j in range(sh("bits", 14), 20):
        if bits[j]:
            return False
    return True
