"""C12 (registry step): the real Parser.handle_* registration methods on a parser that already holds up to two entries.

shard: prior = list of kinds already registered (<= 2), new = kind of the item being added
       kinds: const | str | alias | struct | msg | signal | reserved | module | host
       core  = 1: the item comes from core_defs.yaml (range checks relaxed there, as the code documents)
symbolic: the id/value of every item (any int), the name of every item as an index into the pool {A, B, C}
          (every equality pattern between the names in play)
"""
import pathlib

import pyrtma.parser as P
from engine.standins import NullLogger
from engine import realinit
from harness.common import sh, set_shard, verdict, reached  # noqa: F401

POOL = ["Alpha", "Beta", "Gamma"]
SHARED = ("const", "str", "alias", "struct", "msg", "signal")
MSGID = ("msg", "signal", "reserved")


def new_parser():
    p = realinit.parser(P, validate_alignment=True, auto_pad=True, import_coredefs=True)
    p.current_file = pathlib.Path("/defs/user.yaml") if not sh("core", 0) else pathlib.Path("/defs/core_defs.yaml")
    p.root_path = pathlib.Path("/defs")
    return p


def register(p, kind, name, val):
    if kind == "const":
        p.handle_expression(name, val)
    elif kind == "str":
        p.handle_string(name, "text")
    elif kind == "alias":
        p.handle_alias(name, "int32")
    elif kind == "struct":
        p.handle_struct(name, {"fields": {"a": "int32"}})
    elif kind == "msg":
        p.handle_message_def(name, {"id": val, "fields": {"a": "int32"}})
    elif kind == "signal":
        p.handle_message_def(name, {"id": val, "fields": None})
    elif kind == "reserved":
        p.handle_message_def("_RESERVED_", {"id": [val]})
    elif kind == "module":
        p.handle_module_id(name, val)
    elif kind == "host":
        p.handle_host_id(name, val)


def id_in_range(kind, v):
    core = sh("core", 0)
    if kind in MSGID:
        return 0 <= v <= P.MAX_MESSAGE_TYPES
    if kind == "module":
        return core or v == 0 or not (v < 10 or 99 < v < 200)
    if kind == "host":
        return core or 1 <= v <= 32767
    return True


def table_sizes(p):
    return (len(p.constants), len(p.string_constants), len(p.aliases), len(p.struct_defs), len(p.message_defs),
            len(p.message_ids), len(p.module_ids), len(p.host_ids))


def scenario(n0, v0, n1, v1, n2, v2):
    prior = sh("prior", [])
    new = sh("new")
    p = new_parser()
    items = []
    names = [POOL[n0], POOL[n1]]
    vals = [v0, v1]
    # build a conflict-free prior state with the real handlers (a prior that itself conflicts is not a valid pre-state)
    for k, kind in enumerate(prior):
        try:
            register(p, kind, names[k], vals[k])
        except P.ParserError:
            return True, "invalid pre-state"
        items.append((kind, names[k] if kind != "reserved" else None, vals[k]))
    name = POOL[n2]
    before = table_sizes(p)
    exc = None
    try:
        register(p, new, name, v2)
    except P.ParserError as e:
        exc = e
    except Exception as e:
        return False, "registration raised a non-parser exception %s: %s" % (type(e).__name__, e)
    # reference rule
    applicable = []
    for kind, nm, v in items:
        if new in SHARED and kind in SHARED and nm == name:
            applicable.append(P.DuplicateNameError)
        if new == "module" and kind == "module":
            if nm == name:
                applicable.append(P.DuplicateNameError)
            if v == v2:
                applicable.append(P.ModuleIDError)
        if new == "host" and kind == "host":
            if nm == name:
                applicable.append(P.DuplicateNameError)
            if v == v2:
                applicable.append(P.HostIDError)
        if new in MSGID and kind in MSGID and v == v2:
            applicable.append(P.MessageIDError)
    if not id_in_range(new, v2):
        applicable.append(P.RTMASyntaxError)
    if exc is None:
        if applicable:
            return False, "a %s was registered although %s applies" % (new, applicable[0].__name__)
        after = table_sizes(p)
        grew = sum(after) - sum(before)
        want = 2 if new in MSGID else 1    # message kinds add the definition and its id
        if grew != want:
            return False, "registration changed %d table entries, expected %d" % (grew, want)
    else:
        if not applicable:
            return False, "conflict reported where there is none: %s" % type(exc).__name__
        if type(exc) not in applicable:
            return False, "%s raised, expected one of %s" % (type(exc).__name__, [a.__name__ for a in applicable])
    return True, ""


def _pre(n0, v0, n1, v1, n2, v2):
    prior = sh("prior", [])
    ns, vs = [n0, n1], [v0, v1]
    for k in range(2):
        if k >= len(prior):
            if ns[k] != 0 or vs[k] != 0:
                return False
        else:
            # the prior entries are themselves valid
            if not id_in_range(prior[k], vs[k]):
                return False
            if prior[k] in ("const", "str", "alias", "struct") and vs[k] != 0:
                return False
    if sh("new") in ("const", "str", "alias", "struct") and v2 != 0:
        return False
    return 0 <= n0 < 3 and 0 <= n1 < 3 and 0 <= n2 < 3


def reg(n0: int, v0: int, n1: int, v1: int, n2: int, v2: int) -> bool:
    """
    pre: _pre(n0, v0, n1, v1, n2, v2)
    post: _
    """
    return verdict(scenario(n0, v0, n1, v1, n2, v2))


def reg_reach(n0: int, v0: int, n1: int, v1: int, n2: int, v2: int) -> bool:
    """
    pre: _pre(n0, v0, n1, v1, n2, v2)
    post: _
    """
    return reached(scenario(n0, v0, n1, v1, n2, v2))


# ---- reserved ranges written as text (concrete forms, symbolic probe id) ----
def reserved_forms(lo, span, probe):
    p = new_parser()
    form = sh("form", "dash")
    hi = lo + span
    text = {"dash": "%d-%d" % (lo, hi), "to": "%d to %d" % (lo, hi), "spaced": " %d - %d " % (lo, hi)}[form]
    try:
        p.handle_message_def("_RESERVED_", {"id": [text]})
    except P.ParserError as e:
        return False, "valid reserved range %r refused: %s" % (text, type(e).__name__)
    exc = None
    try:
        p.handle_message_def("Later", {"id": probe, "fields": None})
    except P.ParserError as e:
        exc = e
    inside = lo <= probe <= hi
    if inside != isinstance(exc, P.MessageIDError):
        return False, "id %s the reserved range %r but MessageIDError=%s" % ("inside" if inside else "outside", text, isinstance(exc, P.MessageIDError))
    return True, ""


def resv(probe: int) -> bool:
    """
    pre: 0 <= probe <= 10000
    post: _
    """
    return verdict(reserved_forms(sh("lo", 100), sh("span", 5), probe))


def resv_reach(probe: int) -> bool:
    """
    pre: 0 <= probe <= 10000
    post: _
    """
    return reached(reserved_forms(sh("lo", 100), sh("span", 5), probe))
