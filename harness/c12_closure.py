"""C12 (import closure): the real Parser.parse / parse_file / parse_text / handle_import over an import graph of real files,
with the YAML loader replaced by a stub that returns a per-file dictionary.

shard: edges  = 6 bits  root->a, root->b, a->b, a->c, b->c, c->a   (diamonds, chains, a cycle a->..->c->a)
       twice  = 1: root lists its first import twice
       rev    = 1: every file lists its imports in the opposite order (so a file can meet an already-read file FIRST and a new one after it)
       layout = flat | tree (sibling directories of different depth, imports spelled with "..") | tree_core (as tree, file c is named core_defs.yaml)
       coredefs = 1: the parser imports the package's core definitions first (import_coredefs on, the package file read as an empty mapping):
                  the module / host id range rules are then in force for every file not named core_defs.yaml, and the ids range over all ints
       place  = [file of item 1, file of item 2]   (0 root, 1 a, 2 b, 3 c)
       kinds  = [kind of item 1, kind of item 2]   kinds: msg | signal | module | host | const | struct
symbolic: the two ids (any int in the valid range of the kind), the two names as indices into {A, B, C}
"""
import atexit
import os
import pathlib
import shutil
import tempfile

import pyrtma.parser as P
from engine.standins import NullLogger
from engine import realinit
from harness.common import sh, set_shard, verdict, reached  # noqa: F401

POOL = ["Alpha", "Beta", "Gamma"]
FILES = ["root", "a", "b", "c"]
EDGES = [(0, 1), (0, 2), (1, 2), (1, 3), (2, 3), (3, 1)]
DIR = tempfile.mkdtemp(prefix="verif_c12_")
atexit.register(lambda: shutil.rmtree(DIR, ignore_errors=True))
for f in FILES:
    with open(os.path.join(DIR, f + ".yaml"), "w") as fh:
        fh.write(f + "\n")          # the file's text is its own name: the loader stub maps it to that file's dictionary
# further layouts: the same four files spread over directories of different depth, imported through paths containing ".."
# (a relative import only resolves if the working directory is the importing file's directory at that moment)
TREES = {"tree": {"root": "root.yaml", "a": "rig_a/a.yaml", "b": "rig_b/b.yaml", "c": "common/deep/c.yaml"},
         "tree_core": {"root": "root.yaml", "a": "rig_a/a.yaml", "b": "rig_b/b.yaml", "c": "common/deep/core_defs.yaml"}}
TDIRS = {k: os.path.join(DIR, k) for k in TREES}
for _lay, _tree in TREES.items():
    for f, rel in _tree.items():
        os.makedirs(os.path.dirname(os.path.join(TDIRS[_lay], rel)), exist_ok=True)
        with open(os.path.join(TDIRS[_lay], rel), "w") as fh:
            fh.write(f + "\n")


# coredefs = 1: Parser.parse() reads <directory of parser.py>/core_defs/core_defs.yaml first.  The real file is ~1000 lines of text
# that check_key_value_separation would walk under the tracer on every path; a one-line stand-in file (read as an empty mapping)
# takes its place by pointing the parser module's __file__ at a scratch package directory.  parse() is the only user of __file__.
PKG = os.path.join(DIR, "pkg")
os.makedirs(os.path.join(PKG, "core_defs"), exist_ok=True)
with open(os.path.join(PKG, "core_defs", "core_defs.yaml"), "w") as fh:
    fh.write("package_core_defs\n")
P.__file__ = os.path.join(PKG, "parser.py")


def file_path(f):
    lay = sh("layout", "flat")
    if lay == "flat":
        return os.path.join(DIR, f + ".yaml")
    return os.path.join(TDIRS[lay], TREES[lay][f])


def import_text(src, dst):
    """how file `src` spells its import of file `dst` in the current layout"""
    if sh("layout", "flat") == "flat":
        return dst + ".yaml"
    return os.path.relpath(file_path(dst), os.path.dirname(file_path(src)))
SHARED = ("const", "struct", "msg", "signal")
MSGID = ("msg", "signal")


class FakeYAML:
    data = {}
    loads = {}

    def __init__(self, typ=None, pure=False):
        pass

    def load(self, text):
        name = text.strip()
        if name not in FakeYAML.data:
            return {}           # the package's own core_defs.yaml (coredefs = 1): read as an empty mapping
        FakeYAML.loads[name] = FakeYAML.loads.get(name, 0) + 1
        return FakeYAML.data[name]


P.YAML = FakeYAML
STUBS = ["pyrtma.parser.__file__ -> scratch directory whose core_defs/core_defs.yaml is a one-line stand-in read as an empty mapping (coredefs shards)",
         "pyrtma.parser.YAML -> stub returning the per-file dictionary of the scenario (YAML surface syntax outside the claim); the files are real (empty-ish) files so resolve()/chdir()/is_dir() are the real ones",
         "Parser.logger -> NullLogger"]


def section(kind, name, val):
    if kind == "msg":
        return "message_defs", name, {"id": val, "fields": {"a": "int32"}}
    if kind == "signal":
        return "message_defs", name, {"id": val, "fields": None}
    if kind == "module":
        return "module_ids", name, val
    if kind == "host":
        return "host_ids", name, val
    if kind == "const":
        return "constants", name, 5
    if kind == "struct":
        return "struct_defs", name, {"fields": {"a": "int32"}}


def scenario(n1, v1, n2, v2):
    bits = sh("edges", [1, 1, 0, 0, 0, 0])
    place = sh("place", [0, 1])
    kinds = sh("kinds", ["msg", "msg"])
    data = {f: {} for f in FILES}
    for (i, j), b in zip(EDGES, bits):
        if b:
            data[FILES[i]].setdefault("imports", []).append(import_text(FILES[i], FILES[j]))
    if sh("rev", 0):
        for f in FILES:
            if data[f].get("imports"):
                data[f]["imports"].reverse()
    if sh("twice", 0) and data["root"].get("imports"):
        data["root"]["imports"].append(data["root"]["imports"][0])
    names = [POOL[n1], POOL[n2]]
    vals = [v1, v2]
    same_file_same_name = place[0] == place[1] and names[0] == names[1] and section(kinds[0], "x", 0)[0] == section(kinds[1], "x", 0)[0]
    if same_file_same_name:
        return True, "one YAML mapping cannot hold the same key twice"
    for k in range(2):
        sec, nm, body = section(kinds[k], names[k], vals[k])
        data[FILES[place[k]]].setdefault(sec, {})[nm] = body
    FakeYAML.data = data
    FakeYAML.loads = {}
    # the repository's own Parser.__init__, without its logging handlers
    p = realinit.parser(P, validate_alignment=True, auto_pad=True, import_coredefs=bool(sh("coredefs", 0)))
    exc = None
    cwd = os.getcwd()
    try:
        p.parse(pathlib.Path(file_path("root")))
    except P.ParserError as e:
        exc = e
    except Exception as e:
        return False, "parse raised %s: %s" % (type(e).__name__, e)
    finally:
        if os.getcwd() != cwd:
            os.chdir(cwd)
            return False, "parse did not restore the working directory"
    # reachability
    reach = [True, False, False, False]
    changed = True
    while changed:
        changed = False
        for (i, j), b in zip(EDGES, bits):
            if b and reach[i] and not reach[j]:
                reach[j] = True
                changed = True
    both = reach[place[0]] and reach[place[1]]
    applicable = []
    if sh("coredefs", 0):
        # range rules: message ids everywhere; module / host ids in every file that is not named core_defs.yaml
        for k in range(2):
            if not reach[place[k]]:
                continue
            exempt = os.path.basename(file_path(FILES[place[k]])) == "core_defs.yaml"
            v = vals[k]
            if kinds[k] in MSGID and (v < 0 or v > P.MAX_MESSAGE_TYPES):
                applicable.append(P.RTMASyntaxError)
            if kinds[k] == "module" and (v < 10 or 99 < v < 200) and v != 0 and not exempt:
                applicable.append(P.RTMASyntaxError)
            if kinds[k] == "host" and (v < 1 or v > 32767) and not exempt:
                applicable.append(P.RTMASyntaxError)
    if both:
        k1, k2 = kinds
        if k1 in SHARED and k2 in SHARED and names[0] == names[1]:
            applicable.append(P.DuplicateNameError)
        if k1 in MSGID and k2 in MSGID and vals[0] == vals[1]:
            applicable.append(P.MessageIDError)
        if k1 == "module" and k2 == "module":
            if names[0] == names[1]:
                applicable.append(P.DuplicateNameError)
            if vals[0] == vals[1]:
                applicable.append(P.ModuleIDError)
        if k1 == "host" and k2 == "host":
            if names[0] == names[1]:
                applicable.append(P.DuplicateNameError)
            if vals[0] == vals[1]:
                applicable.append(P.HostIDError)
    if exc is None:
        if applicable:
            return False, "conflict not detected across the import graph: %s" % applicable[0].__name__
        for k, f in enumerate(FILES):
            n = FakeYAML.loads.get(f, 0)
            if n != (1 if reach[k] else 0):
                return False, "file %s was read %d times (reachable=%s)" % (f, n, reach[k])
        # everything reachable is registered
        total = len(p.message_defs) + len(p.module_ids) + len(p.host_ids) + len(p.constants) + len(p.struct_defs)
        want = (1 if reach[place[0]] else 0) + (1 if reach[place[1]] else 0)
        if total != want:
            return False, "%d items registered, %d reachable" % (total, want)
    else:
        if not applicable:
            return False, "conflict reported where there is none: %s" % type(exc).__name__
        if type(exc) not in applicable:
            return False, "%s raised, expected one of %s" % (type(exc).__name__, [a.__name__ for a in applicable])
    return True, ""


def _rng(kind, v):
    if kind in MSGID:
        return 0 <= v <= P.MAX_MESSAGE_TYPES
    if kind == "module":
        return 10 <= v <= 99 or v >= 200
    if kind == "host":
        return 1 <= v <= 32767
    return v == 0


def _pre(n1, v1, n2, v2):
    kinds = sh("kinds", ["msg", "msg"])
    if sh("coredefs", 0):
        def anyint(kind, v):
            return (-2**31 <= v < 2**31) if kind in MSGID + ("module", "host") else v == 0
        return 0 <= n1 < 3 and 0 <= n2 < 3 and anyint(kinds[0], v1) and anyint(kinds[1], v2)
    return 0 <= n1 < 3 and 0 <= n2 < 3 and _rng(kinds[0], v1) and _rng(kinds[1], v2)


def clo(n1: int, v1: int, n2: int, v2: int) -> bool:
    """
    pre: _pre(n1, v1, n2, v2)
    post: _
    """
    return verdict(scenario(n1, v1, n2, v2))


def clo_reach(n1: int, v1: int, n2: int, v2: int) -> bool:
    """
    pre: _pre(n1, v1, n2, v2)
    post: _
    """
    return reached(scenario(n1, v1, n2, v2))
