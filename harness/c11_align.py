"""C11: real Parser.check_alignment / validate_msg_def on field sequences with symbolic array lengths.

shard: fields = list of [kind, width, arr]   kind: "n" native, "a" alias of a native, "s" nested struct (size = width * m),
                                              "as" alias of such a struct (an alias of a struct read from an imported file)
                                              width: 1 | 2 | 4 | 8 (natural alignment), arr: 0 scalar | 1 array
       auto_pad: 1 | 0
symbolic: array length of each field (1..70000), size multiplier m of each nested struct (1..9000)
Parser.get_ctype_size (ctypes) is replaced by the natural-C-layout reference model c_layout (validated against ctypes and gcc
by engine/validate_layout.py); everything else is the repository's code.
"""
import pathlib

import pyrtma.parser as P
from harness.common import sh, set_shard, verdict, reached  # noqa: F401

NATIVE = {1: "uint8", 2: "int16", 4: "float", 8: "double"}


def c_layout(fields):
    """natural C layout of a field list: (size, alignment, [offsets])"""
    off = 0
    mx = 1
    offs = []
    for f in fields:
        a = f.alignment
        if a > mx:
            mx = a
        r = off % a
        if r != 0:
            off += a - r
        offs.append(off)
        off += f.size
    r = off % mx
    if r != 0:
        off += mx - r
    return off, mx, offs


class Quiet(P.Parser):
    def __init__(self, auto_pad):
        self.auto_pad = auto_pad
        self.validate_alignment = True
        self.current_file = pathlib.Path("x.yaml")

    def warning(self, msg):
        pass

    def get_ctype_size(self, s):
        return c_layout(s.fields)[0]


def build(lens, ms):
    spec = sh("fields")
    fields = []
    for k, (kind, width, arr) in enumerate(spec):
        nat = P.supported_types[NATIVE[width]]
        if kind == "n":
            tobj, tname = nat, NATIVE[width]
        elif kind == "a":
            tobj, tname = P.TypeAlias("AL%d" % k, NATIVE[width], nat, pathlib.Path("x.yaml")), "AL%d" % k
        else:
            inner = P.SDF("", "", "S%d" % k, pathlib.Path("x.yaml"))
            inner.fields.append(P.Field("x", NATIVE[width], nat, length=ms[k]))   # size = width * m, alignment = width
            inner.alignment = width
            tobj, tname = inner, "S%d" % k
            if kind == "as":
                tobj, tname = P.TypeAlias("AS%d" % k, "S%d" % k, inner, pathlib.Path("x.yaml")), "AS%d" % k
        f = P.Field("f%d" % k, tname, tobj)
        if arr:
            f.length = lens[k]
            f.length_expression = f.length_expanded = "n"
        fields.append(f)
    return fields


def reference(lens, ms):
    """(size, natural alignment) of each user field, from the descriptor alone - not from the parser's own size/alignment
    properties, which are part of what is being checked"""
    out = []
    for k, (kind, width, arr) in enumerate(sh("fields")):
        elem = width * (ms[k] if kind in ("s", "as") else 1)
        out.append((elem * (lens[k] if arr else 1), width))
    return out


def scenario(l0, l1, l2, l3, m0, m1, m2, m3):
    lens, ms = [l0, l1, l2, l3], [m0, m1, m2, m3]
    auto = bool(sh("auto_pad", 1))
    user = build(lens, ms)
    ref = reference(lens, ms)
    for f, (rs, ra) in zip(user, ref):
        if f.size != rs or f.alignment != ra:
            return False, "the compiler's model gives field %s (%s) size %s / alignment %s; a C compiler gives %s / %s" % (f.name, f.type_name, f.size, f.alignment, rs, ra)
    # does a C compiler need padding for these user fields as they stand?
    roff, rmx, c_needs = 0, 1, False
    for rs, ra in ref:
        if roff % ra != 0:
            c_needs = True
            roff += ra - roff % ra
        roff += rs
        if ra > rmx:
            rmx = ra
    if roff % rmx != 0:
        c_needs = True
    s = P.MDF("", "", "M", 1, pathlib.Path("x.yaml"))
    s.fields = list(user)
    p = Quiet(auto)
    exc = None
    try:
        p.validate_msg_def(s)
    except (P.AlignmentError, P.InvalidMessageSize) as e:
        exc = e
    except Exception as e:
        return False, "validate_msg_def raised %s: %s" % (type(e).__name__, e)
    # what the padded variant does with the same user fields (reference for the auto_pad=off rule)
    if not auto:
        user2 = build(lens, ms)
        s2 = P.MDF("", "", "M", 1, pathlib.Path("x.yaml"))
        s2.fields = list(user2)
        try:
            Quiet(True).check_alignment(s2)
        except Exception as e:
            return False, "padded variant raised %s" % type(e).__name__
        needs_padding = len(s2.fields) != len(user2)
        if needs_padding != c_needs:
            return False, "the compiler pads a definition that %s padding for a C compiler" % ("needs" if c_needs else "needs no")
        if isinstance(exc, P.AlignmentError) != needs_padding:
            return False, "auto_pad off: AlignmentError=%s but the definition %s padding" % (isinstance(exc, P.AlignmentError), "needs" if needs_padding else "needs no")
        if isinstance(exc, P.AlignmentError):
            return True, ""
    elif isinstance(exc, P.AlignmentError):
        return False, "AlignmentError with auto_pad on"
    # layout of what was accepted (or rejected for size only)
    fields = s.fields
    # user fields: same objects, same order, nothing dropped; inserted fields are char paddings
    j = 0
    for f in fields:
        if j < len(user) and f is user[j]:
            j += 1
        else:
            if not (f.type_name == "char" and f.type_obj is P.supported_types["char"] and f.name.startswith("padding_")):
                return False, "a field that is neither a user field nor char padding was inserted"
            if f.length is not None and not (1 <= f.length <= 7):
                return False, "padding of an impossible length"
    if j != len(user):
        return False, "a user field was dropped or reordered"
    off = 0
    mx = 1
    j = 0
    for f in fields:
        if j < len(user) and f is user[j]:
            fs, fa = ref[j]
            j += 1
        else:
            fs, fa = (f.length or 1), 1        # an inserted char padding
        if off % fa != 0:
            return False, "field %s starts at an offset that is not a multiple of its alignment" % f.name
        if f.size != fs or f.alignment != fa:
            return False, "field %s: recorded size/alignment differ from the C compiler's" % f.name
        off += fs
        if fa > mx:
            mx = fa
    if auto and not c_needs and len(fields) != len(user):
        return False, "padding inserted into a definition that needs none"
    if off % mx != 0:
        return False, "struct size is not a multiple of its strictest member alignment"
    if s.size != off or c_layout(fields)[0] != off:
        return False, "size differs from the sum of the declared fields / a C compiler would insert hidden padding"
    if s.alignment != mx:
        return False, "recorded struct alignment differs from the C alignment"
    if sh("reuse", 0) and exc is None:
        # field-list reuse: the accepted fields copied into another definition (stale offsets) must be accepted as they are
        import copy as _copy
        s3 = P.MDF("", "", "M2", 2, pathlib.Path("x.yaml"))
        s3.fields = [_copy.copy(f) for f in fields]
        for f in s3.fields:
            f.offset = -1
        try:
            Quiet(auto).validate_msg_def(s3)
        except Exception as e:
            return False, "re-validating an accepted field list raised %s" % type(e).__name__
        if len(s3.fields) != len(fields) or s3.size != off:
            return False, "re-validating an accepted field list changed it"
    too_big = off > 65535
    if too_big != isinstance(exc, P.InvalidMessageSize):
        return False, "size %s 65535 but InvalidMessageSize=%s" % (">" if too_big else "<=", isinstance(exc, P.InvalidMessageSize))
    return True, ""


def _pre(l0, l1, l2, l3, m0, m1, m2, m3):
    spec = sh("fields")
    lens, ms = [l0, l1, l2, l3], [m0, m1, m2, m3]
    for k in range(4):
        used_len = k < len(spec) and spec[k][2]
        used_m = k < len(spec) and spec[k][0] in ("s", "as")
        if used_len:
            if not (1 <= lens[k] <= 70000):
                return False
        elif lens[k] != 0:
            return False
        if used_m:
            if not (1 <= ms[k] <= 9000):
                return False
        elif ms[k] != 0:
            return False
    return True


def align(l0: int, l1: int, l2: int, l3: int, m0: int, m1: int, m2: int, m3: int) -> bool:
    """
    pre: _pre(l0, l1, l2, l3, m0, m1, m2, m3)
    post: _
    """
    return verdict(scenario(l0, l1, l2, l3, m0, m1, m2, m3))


def align_reach(l0: int, l1: int, l2: int, l3: int, m0: int, m1: int, m2: int, m3: int) -> bool:
    """
    pre: _pre(l0, l1, l2, l3, m0, m1, m2, m3)
    post: _
    """
    return reached(scenario(l0, l1, l2, l3, m0, m1, m2, m3))
