"""C13: the version hash.

(a) canonical-text injectivity (direct z3 string queries, run as a script obligation):
    The text that the real handlers hash is captured by executing the REAL handle_message_def / handle_struct (and
    handle_signal through it) with marker strings in every definition element and sha256 replaced by a recorder; the
    recorded text is split at the markers into a template (literal pieces + variable slots).  Two definitions of given
    shapes are then encoded as z3 string terms over variables constrained by regular expressions, and the query
    "the definitions differ AND the hashed texts are equal" must be unsat.
    The template extraction is validated on every run by rendering concrete definitions through the real handler and
    through the template.
(b) back ends print the first 32 bits of that value; Client.send_message stamps it (CrossHair harness functions below).

usage as script:  python -m harness.c13_hash inject '<shard json>'   ->  RESULT {...}
"""
import json
import pathlib
import random
import sys
import time

import pyrtma.parser as P
from harness.common import sh, set_shard, verdict, reached  # noqa: F401

# ------------------------------------------------------------------ template extraction from the real handlers
M_NAME, M_ID = "Q\ue000", "\ue001"
M_REUSE = "\ue002"


def m_fname(i):
    return "\ue010" + chr(0xE100 + i)


def m_ftype(i):
    return "\ue011" + chr(0xE200 + i)


class MarkInt(int):
    """an int (so isinstance/range checks behave) that renders as the id marker"""

    def __format__(self, spec):
        return M_ID

    def __str__(self):
        return M_ID


class Recorder:
    def __init__(self):
        self.texts = []

    def __call__(self, data=b""):
        self.texts.append(data.decode())
        return self

    def hexdigest(self):
        return "0" * 64


def bare_parser(ctx=0, reuse_name=None):
    from engine.standins import NullLogger
    from engine import realinit
    p = realinit.parser(P, validate_alignment=bool(ctx % 2), auto_pad=True, import_coredefs=bool((ctx // 2) % 2))
    p.root_path = pathlib.Path(["/d", "/other", "/"][ctx % 3])
    p.clear()
    p.current_file = pathlib.Path(["/d/a.yaml", "/other/place/b.yaml", "/d/sub/c.yaml"][ctx % 3])
    if ctx >= 1:   # unrelated definitions already registered
        p.constants["ZED"] = P.ConstantExpr("ZED", "5", "5", 5, pathlib.Path("z.yaml"))
        p.handle_struct("Unrelated%d" % ctx, {"fields": {"q": "int8"}})
    if ctx >= 4 and reuse_name is not None:
        # the definition named by `fields: <name>` was read from an imported file earlier: parse_text has merged that file's
        # sections into yaml_dict and the handlers have registered it (ctx 4: as a message, ctx 5: as a struct)
        body = {"fields": {"q": "int8", "r": "double"}}
        try:
            if ctx == 4:
                p.handle_message_def(reuse_name, dict(body, id=9000))
            else:
                p.handle_struct(reuse_name, dict(body))
        except Exception:
            pass        # marker names are not identifiers; the merged dictionary below is what a later lookup would see
        p.yaml_dict["message_defs" if ctx == 4 else "struct_defs"][reuse_name] = dict(body, id=9000) if ctx == 4 else dict(body)
    p.current_file = pathlib.Path(["/d/a.yaml", "/other/place/b.yaml", "/d/sub/c.yaml"][ctx % 3])
    return p


def hashed_text(shape, k, values=None, ctx=0):
    """run the real handler; return the text it feeds to sha256.  values=None -> markers"""
    rec = Recorder()
    old = P.sha256
    P.sha256 = rec
    try:
        if values is None:
            name, mid = M_NAME, MarkInt(7)
            fields = {m_fname(i): m_ftype(i) for i in range(k)}
            reuse = M_REUSE
        else:
            name, mid, fields, reuse = values
        p = bare_parser(ctx, reuse)
        n0 = len(rec.texts)
        try:
            if shape == "signal":
                p.handle_message_def(name, {"id": mid, "fields": None})
            elif shape == "msg":
                p.handle_message_def(name, {"id": mid, "fields": dict(fields)})
            elif shape == "msg_reuse":
                p.handle_message_def(name, {"id": mid, "fields": reuse})
            elif shape == "struct":
                p.handle_struct(name, {"fields": dict(fields)})
            elif shape == "struct_reuse":
                p.handle_struct(name, {"fields": reuse})
        except Exception:
            pass   # the text is hashed before the fields are resolved; marker types do not resolve
        if len(rec.texts) != n0 + 1:
            raise RuntimeError("handler for shape %s did not hash exactly one text (%d)" % (shape, len(rec.texts) - n0))
        return rec.texts[-1]
    finally:
        P.sha256 = old


def template(shape, k, ctx=0):
    """[("lit", text) | ("name",) | ("id",) | ("fname", i) | ("ftype", i) | ("reuse",)]"""
    text = hashed_text(shape, k, None, ctx)
    marks = [(M_NAME, ("name",)), (M_ID, ("id",)), (M_REUSE, ("reuse",))]
    for i in range(k):
        marks.append((m_fname(i), ("fname", i)))
        marks.append((m_ftype(i), ("ftype", i)))
    out = []
    pos = 0
    while pos < len(text):
        best = None
        for mk, slot in marks:
            j = text.find(mk, pos)
            if j >= 0 and (best is None or j < best[0]):
                best = (j, mk, slot)
        if best is None:
            out.append(("lit", text[pos:]))
            break
        j, mk, slot = best
        if j > pos:
            out.append(("lit", text[pos:j]))
        out.append(slot)
        pos = j + len(mk)
    for piece in out:
        if piece[0] == "lit" and any(0xE000 <= ord(c) <= 0xF8FF for c in piece[1]):
            raise RuntimeError("marker fragment left in a literal: the handler does not treat the element as an opaque string")
    return out


def instantiate(tpl, name, mid, fields, reuse):
    parts = []
    fl = list(fields.items())
    for piece in tpl:
        if piece[0] == "lit":
            parts.append(piece[1])
        elif piece[0] == "name":
            parts.append(name)
        elif piece[0] == "id":
            parts.append(str(mid))
        elif piece[0] == "fname":
            parts.append(fl[piece[1]][0])
        elif piece[0] == "ftype":
            parts.append(fl[piece[1]][1])
        elif piece[0] == "reuse":
            parts.append(reuse)
    return "".join(parts)


SHAPES = ["signal", "msg", "msg_reuse", "struct", "struct_reuse"]
NCTX = 6    # parser contexts: file location / options / unrelated registry contents / the reused definition read from an imported file


class ContextDependence(Exception):
    """the text a handler hashes is not the same template under all parser contexts: the property's first clause is broken"""

    def __init__(self, shape, k):
        Exception.__init__(self, "hashed text of shape %s depends on the parser context (file location / registry contents / options / where a reused definition was read from)" % shape)
        self.shape, self.k = shape, k


def replay_context(shape, k):
    """the same definition B compiled by the real parser (real ruamel.yaml, real sha256) in two layouts - everything in one
    file / the definition it refers to read from an imported file, with an unrelated definition around - must hash alike.
    Returns True iff the two hashes DIFFER (the dependence is real)."""
    import os
    import shutil
    import tempfile
    d = tempfile.mkdtemp(prefix="verif_c13ctx_")
    try:
        a_msg = "  A:\n    id: 1000\n    fields:\n      x: int32\n      y: double\n"
        a_struct = "  AS:\n    fields:\n      x: int32\n      y: double\n"
        if shape == "signal":
            b, sec = "  B:\n    id: 1001\n    fields: null\n", "message_defs"
        elif shape == "msg":
            b, sec = "  B:\n    id: 1001\n    fields:\n" + "".join("      f%d: int32\n" % i for i in range(max(k, 1))), "message_defs"
        elif shape == "msg_reuse":
            b, sec = "  B:\n    id: 1001\n    fields: A\n", "message_defs"
        elif shape == "struct":
            b, sec = "  B:\n    fields:\n" + "".join("      f%d: int32\n" % i for i in range(max(k, 1))), "struct_defs"
        else:
            b, sec = "  B:\n    fields: AS\n", "struct_defs"
        one = "struct_defs:\n" + a_struct + (b if sec == "struct_defs" else "") + "message_defs:\n" + a_msg + (b if sec == "message_defs" else "")
        base = "struct_defs:\n" + a_struct + "message_defs:\n" + a_msg
        main = "imports:\n  - inc/base.yaml\n" + sec + ":\n" + b
        os.makedirs(os.path.join(d, "two", "inc"))
        os.makedirs(os.path.join(d, "one"))
        for path, text in (("one/main.yaml", one), ("two/inc/base.yaml", base), ("two/main.yaml", main)):
            with open(os.path.join(d, path), "w") as f:
                f.write(text)
        hashes = []
        for lay in ("one", "two"):
            p = P.Parser(import_coredefs=False)
            p.logger.disabled = True
            p.parse(pathlib.Path(d) / lay / "main.yaml")
            tab = p.message_defs if sec == "message_defs" else p.struct_defs
            hashes.append(tab["B"].hash)
        return hashes[0] != hashes[1]
    finally:
        shutil.rmtree(d, ignore_errors=True)


def validate_templates(seed, n=150):
    """concrete renderings through the real handler and through the template must agree; slots must be exactly the definition elements"""
    rnd = random.Random(seed)
    checked = 0
    for shape in SHAPES:
        for k in ((1, 2, 3) if shape in ("msg", "struct") else (0,)):
            tpls = [template(shape, k, ctx) for ctx in range(NCTX)]
            if any(t != tpls[0] for t in tpls[1:]):
                raise ContextDependence(shape, k)
            slots = sorted(p for p in tpls[0] if p[0] != "lit")
            want = []
            if shape in ("signal", "msg", "msg_reuse"):
                want += [("id",)]
            want += [("name",)]
            if shape in ("msg_reuse", "struct_reuse"):
                want += [("reuse",)] if shape == "msg_reuse" else []
            for i in range(k):
                want += [("fname", i), ("ftype", i)]
            if shape == "struct_reuse":
                pass   # the struct handler joins the characters of the reuse text with newlines: slots are not whole (see below)
            elif sorted(want) != slots:
                raise RuntimeError("shape %s/%d: hashed text has slots %s, expected %s" % (shape, k, slots, sorted(want)))
            for _ in range(n // 8):
                name = rnd.choice("ABCxyz") + "".join(rnd.choice("abcXYZ_019") for _ in range(rnd.randrange(0, 6)))
                mid = rnd.randrange(0, 10000)
                fields = {}
                while len(fields) < k:
                    fields["f" + "".join(rnd.choice("abc_12") for _ in range(rnd.randrange(0, 4)))] = rnd.choice(
                        ["int32", "double[4]", "unsigned int", "MY_T[N + 1]", "char[ 8 ]", "Other"])
                reuse = rnd.choice(["Base", "OTHER_DEF", "k"])
                if shape == "struct_reuse":
                    continue
                real = hashed_text(shape, k, (name, mid, fields, reuse), rnd.randrange(NCTX))
                if real != instantiate(tpls[0], name, mid, fields, reuse):
                    raise RuntimeError("template of %s/%d does not reproduce the handler's text for %r" % (shape, k, (name, mid, fields)))
                checked += 1
    return checked


# ------------------------------------------------------------------ z3 encoding
def z3_text(z3, tpl, V):
    parts = []
    for piece in tpl:
        if piece[0] == "lit":
            parts.append(z3.StringVal(piece[1]))
        else:
            parts.append(V[piece])
    return z3.Concat(*parts) if len(parts) > 1 else parts[0]


def mk_vars(z3, tag, shape, k, solver, maxlen, fname_len=None):
    """variables of one definition, constrained by the grammar of accepted definition elements"""
    V = {}
    R = z3.Re
    letter = z3.Union(z3.Range("a", "z"), z3.Range("A", "Z"))
    digit = z3.Range("0", "9")
    idch = z3.Union(letter, digit, R("_"))
    ident = z3.Concat(letter, z3.Star(idch))                       # check_name: starts with a letter
    fident = z3.Concat(z3.Union(letter, R("_")), z3.Star(idch))    # field names: identifiers legal in all target languages
    number = z3.Union(R("0"), z3.Concat(z3.Range("1", "9"), z3.Star(digit)))
    tch = z3.Union(idch, R(" "), R("["), R("]"), R("*"), R("+"), R("-"), R("("), R(")"), R("/"))
    nosp = z3.Union(idch, R("["), R("]"), R("*"), R("+"), R("-"), R("("), R(")"), R("/"))
    ttext = z3.Union(nosp, z3.Concat(nosp, z3.Star(tch), nosp))    # YAML scalars carry no leading/trailing blanks, no newline

    def var(piece, regex):
        v = z3.String("%s_%s" % (tag, "_".join(map(str, piece))))
        solver.add(z3.InRe(v, regex), z3.Length(v) <= ((fname_len or maxlen) if piece[0] == "fname" else maxlen))
        V[piece] = v

    var(("name",), ident)
    if shape in ("signal", "msg", "msg_reuse"):
        var(("id",), number)
    if shape in ("msg_reuse", "struct_reuse"):
        var(("reuse",), ident)
    for i in range(k):
        var(("fname", i), fident)
        var(("ftype", i), ttext)
    return V


def inject_query(shape1, k1, shape2, k2, maxlen, timeout_s, exclude_known=True, fname_len=None):
    import z3
    s = z3.Solver()
    s.set("timeout", int(timeout_s * 1000))
    t1, t2 = template(shape1, k1), template(shape2, k2)
    V1 = mk_vars(z3, "a", shape1, k1, s, maxlen, fname_len)
    V2 = mk_vars(z3, "b", shape2, k2, s, maxlen, fname_len)
    # field names within one definition are distinct (they are keys of one mapping)
    for V, k in ((V1, k1), (V2, k2)):
        for i in range(k):
            for j in range(i):
                s.add(V[("fname", i)] != V[("fname", j)])
    s.add(z3_text(z3, t1, V1) == z3_text(z3, t2, V2))
    if (shape1, k1) == (shape2, k2):
        s.add(z3.Or(*[V1[p] != V2[p] for p in V1]))
    known = []
    if exclude_known and {shape1, shape2} == {"msg", "msg_reuse"} and (k1 if shape1 == "msg" else k2) == 1 and "C13-fields-reuse" in sh("known", []):
        Vm = V1 if shape1 == "msg" else V2
        s.add(Vm[("fname", 0)] != z3.StringVal("fields"))
        known.append("C13-fields-reuse")
    t0 = time.time()
    r = s.check()
    out = {"result": str(r), "solver_s": round(time.time() - t0, 3), "excluded": known}
    if str(r) == "sat":
        m = s.model()
        out["model"] = {"a": {"_".join(map(str, p)): m.eval(v, True).as_string() for p, v in V1.items()},
                        "b": {"_".join(map(str, p)): m.eval(v, True).as_string() for p, v in V2.items()}}
    return out


def replay_collision(shape1, k1, m1, shape2, k2, m2):
    """render both definitions through the REAL handlers with the real sha256 and compare the hashes"""
    def vals(k, m):
        fields = {m["fname_%d" % i]: m["ftype_%d" % i] for i in range(k)}
        return (m["name"], int(m["id"]) if "id" in m else 0, fields, m.get("reuse", "X"))

    def real_hash(shape, k, m):
        import hashlib
        return hashlib.sha256(hashed_text(shape, k, vals(k, m)).encode()).hexdigest()

    return real_hash(shape1, k1, m1) == real_hash(shape2, k2, m2) and (shape1, k1, m1) != (shape2, k2, m2)


def script_main():
    """one injectivity query = one script obligation shard"""
    shard = json.loads(sys.argv[2]) if len(sys.argv) > 2 else {}
    set_shard(shard)
    t0 = time.time()
    try:
        if shard.get("what") == "templates":
            n = validate_templates(int(shard.get("seed", 0)))
            print("RESULT " + json.dumps({"state": "CONFIRMED", "message": "templates extracted from the real handlers reproduce %d concrete renderings; slots are exactly name/id/fields; identical under %d parser contexts" % (n, NCTX),
                                          "paths": n, "solver_calls": 0, "solver_s": 0.0, "wall_s": time.time() - t0}))
            return
        if shard.get("what") == "pool":
            import z3
            T = pool_texts(shard.get("nsuffix", len(SUFFIX)))
            N = len(T)
            i, j = z3.Ints("i j")
            sol = z3.Solver()
            fm = z3.Function("hashed_msg", z3.IntSort(), z3.StringSort())
            fs = z3.Function("hashed_struct", z3.IntSort(), z3.StringSort())
            for k, (a, b, t) in enumerate(T):
                sol.add(fm(k) == z3.StringVal(a), fs(k) == z3.StringVal(b))
            sol.add(0 <= i, i < j, j < N, z3.Or(fm(i) == fm(j), fs(i) == fs(j)))
            ts = time.time()
            r = sol.check()
            res = {"paths": N * (N - 1) // 2, "solver_calls": 1, "solver_s": round(time.time() - ts, 3), "wall_s": time.time() - t0}
            if str(r) == "unsat":
                res.update(state="CONFIRMED", message="unsat: the %d accepted type texts of the pool give %d pairwise different hashed texts (real handlers)" % (N, N))
            elif str(r) == "sat":
                m = sol.model()
                a, b = T[m[i].as_long()], T[m[j].as_long()]
                res.update(state="POST_FAIL", replayed_real=bool(a[0] == b[0] or a[1] == b[1]), call=json.dumps([a[2], b[2]]),
                           message="type texts %r and %r are hashed to the same text by the real handler" % (a[2], b[2]))
            else:
                res.update(state="CANNOT_CONFIRM", message="z3 answered %s" % r)
            print("RESULT " + json.dumps(res))
            return
        s1, k1, s2, k2 = shard["s1"], shard["k1"], shard["s2"], shard["k2"]
        r = inject_query(s1, k1, s2, k2, shard.get("maxlen", 3), shard.get("timeout", 120), fname_len=shard.get("fname_len"))
        res = {"paths": 1, "solver_calls": 1, "solver_s": r["solver_s"], "wall_s": time.time() - t0}
        if r["result"] == "unsat":
            res.update(state="CONFIRMED", message="unsat: no two different definitions of shapes %s/%d, %s/%d hash the same text (strings <= %d)%s"
                       % (s1, k1, s2, k2, shard.get("maxlen", 3), " excluding " + ",".join(r["excluded"]) if r["excluded"] else ""))
        elif r["result"] == "sat":
            real = replay_collision(s1, k1, r["model"]["a"], s2, k2, r["model"]["b"])
            res.update(state="POST_FAIL", replayed_real=bool(real), call=json.dumps(r["model"]),
                       message="two different definitions hash the same canonical text: %s" % json.dumps(r["model"]))
        else:
            res.update(state="CANNOT_CONFIRM", message="z3 answered %s" % r["result"])
        print("RESULT " + json.dumps(res))
    except ContextDependence as e:
        real = replay_context(e.shape, e.k)
        print("RESULT " + json.dumps({"state": "POST_FAIL", "replayed_real": bool(real), "call": json.dumps({"shape": e.shape, "k": e.k}),
                                      "message": "%s%s" % (e, "; two real compilations (one file / referred definition imported) give different hashes" if real else ""),
                                      "paths": 1, "solver_calls": 0, "solver_s": 0.0, "wall_s": time.time() - t0}))
    except Exception as e:
        import traceback
        print("RESULT " + json.dumps({"state": "HARNESS_ERROR", "message": "%s: %s" % (type(e).__name__, e), "traceback": traceback.format_exc()[-1500:]}))


# ------------------------------------------------------------------ accepted type texts from a pool, through the real handler
NATIVES = sorted(P.supported_types)
SUFFIX = ["", "[2]", "[4]", "[ 4 ]", "[N]"]
TYPE_POOL = [n + sfx for n in NATIVES for sfx in SUFFIX]


_POOL_TEXTS = {}


def pool_texts(nsfx):
    """the texts the real handlers hash for every pool entry (computed once per process from the current source, concretely)"""
    if nsfx not in _POOL_TEXTS:
        from engine.shadow import NoTracing
        with NoTracing():
            out = []
            for n in NATIVES:
                for sfx in SUFFIX[:nsfx]:
                    t = n + sfx
                    out.append((hashed_text("msg", 1, ("Msg", 77, {"fld": t}, "X")), hashed_text("struct", 1, ("Str", 0, {"fld": t}, "X")), t))
            _POOL_TEXTS[nsfx] = out
    return _POOL_TEXTS[nsfx]


def pool_pair(i, j):
    """two one-field definitions that differ only in the field's type text (both accepted forms): the texts the real
    handlers hash must differ.  i < j index the pool of every native type name x suffixes."""
    T = pool_texts(sh("nsuffix", len(SUFFIX)))
    a, b = T[i], T[j]
    if a[0] == b[0] or a[1] == b[1]:
        return False, "type texts %r and %r give the same hashed text" % (a[2], b[2])
    return True, ""


def h_pool(i: int, j: int) -> bool:
    """
    pre: 0 <= i < j < len(NATIVES) * sh("nsuffix", len(SUFFIX))
    post: _
    """
    return verdict(pool_pair(i, j))


def h_pool_reach(i: int, j: int) -> bool:
    """
    pre: 0 <= i < j < len(NATIVES) * sh("nsuffix", len(SUFFIX))
    post: _
    """
    return reached(pool_pair(i, j))


# ------------------------------------------------------------------ CrossHair obligations: printers and stamping
HEX = "0123456789abcdef"


def printers(h):
    """one back end per shard"""
    which = sh("backend", "c")
    win = sh("window", None)
    if win is not None:
        # python back end: .upper() on a fully symbolic string is too heavy for z3; a 3-character symbolic window slides over the hash
        base = "0a1b2c3d4e"
        wl = sh("wlen", 3)
        h = base[:win] + h[win:win + wl] + base[win + wl:]
    m = P.MDF("raw", h, "NAME", 5, pathlib.Path("x.yaml"))
    m.fields.append(P.Field("a", "int32", P.supported_types["int32"]))
    want = h[:8]
    if which == "c":
        from pyrtma.compilers.c99 import CDefCompiler
        c = CDefCompiler(bare_parser(), "defs").generate_hash_id(m)
        if c != "#define HASH_" + "NAME".ljust(48) + " 0x" + want + "\n":
            return False, "C header prints another hash value"
    elif which == "js":
        from pyrtma.compilers.javascript import JSDefCompiler
        j = JSDefCompiler(bare_parser()).generate_hash_id(m)
        if j != 'RTMA.HASH.NAME = "' + want + '";\n':
            return False, "JavaScript prints another hash value"
    elif which == "matlab":
        from pyrtma.compilers.matlab import MatlabDefCompiler
        mc = MatlabDefCompiler(bare_parser())
        ml = mc.generate_hash_id(m)
        if ml != 'RTMA.hash.NAME = "' + want + '";\n':
            return False, "MATLAB prints another hash value"
    else:
        from pyrtma.compilers.python import PyDefCompiler
        import pyrtma.compilers.python as PYC
        PYC.dedent = lambda t: t   # textwrap.dedent only strips common leading blanks (stdlib regex on the whole text): cut
        pc = PyDefCompiler(bare_parser())
        if which == "py_msg":
            py = pc.generate_msg_def(m)
        else:
            sd = P.SDF("raw", h, "SNAME", pathlib.Path("x.yaml"))
            sd.fields.append(P.Field("a", "int32", P.supported_types["int32"]))
            py = pc.generate_struct(sd)
        key = "type_hash: ClassVar[int] = 0x"
        i = py.find(key)
        if i < 0:
            return False, "no type_hash line"
        got = py[i + len(key): i + len(key) + 8]
        if got.lower() != want or py[i + len(key) + 8] != "\n":
            return False, "Python class carries another hash value"
    return True, ""


def h_printers(h: str) -> bool:
    """
    pre: len(h) == 10 and all(c in HEX for c in h)
    post: _
    """
    return verdict(printers(h))


def h_printers_reach(h: str) -> bool:
    """
    pre: len(h) == 10 and all(c in HEX for c in h)
    post: _
    """
    return reached(printers(h))


# ------------------------------------------------------------------ senders stamp the hash into header.version
def stamp(hash1, hash2, signal_type, first_signal, second_signal):
    """two consecutive sends of one client (message or bare signal each): every outgoing header carries the hash of ITS
    definition (0 for a bare signal), whatever was sent before it.  Headers are snapshotted at send time."""
    from engine import cliworld as CW
    from pyrtma import core_defs as cd
    c = CW.new_client(module_id=12)
    sent = []

    def rec(buf):
        real = getattr(type(buf), "_real", type(buf))
        if issubclass(real, CW.MessageHeader):
            sent.append(("H", buf._reserved, buf._msg_type, buf._num_data_bytes))
        else:
            sent.append(("P",))

    c._sendall = rec

    class FakeSock:
        def close(self):
            pass
    c._sock = FakeSock()
    plan = [(first_signal, hash1), (second_signal, hash2)]
    try:
        for as_signal, th in plan:
            if as_signal:
                c.send_signal(signal_type)
            else:
                data = CW.SH.shadow_of(cd.MDF_MODULE_READY)() if CW.SHADOW else cd.MDF_MODULE_READY()
                # the class attribute the generated code carries: any 32-bit value
                type(data).type_hash = th
                try:
                    c.send_message(data)
                finally:
                    type(data).type_hash = cd.MDF_MODULE_READY.type_hash
    finally:
        c._connected = False
    k = 0
    for n, (as_signal, th) in enumerate(plan):
        if k >= len(sent) or sent[k][0] != "H":
            return False, "send %d: no header was written" % n
        _, ver, mt, nb = sent[k]
        if as_signal:
            if ver != 0 or mt != signal_type or nb != 0:
                return False, "send %d: send_signal must leave the version field 0 (and declare no payload)" % n
            k += 1
        else:
            if ver != th:
                return False, "send %d: header.version is not the message definition's hash" % n
            if mt != cd.MT_MODULE_READY or nb != 4 or k + 1 >= len(sent) or sent[k + 1][0] != "P":
                return False, "send %d: frame is not header + payload of the definition" % n
            k += 2
    if k != len(sent):
        return False, "more was written than the two frames"
    return True, ""


def h_stamp(hash1: int, hash2: int, signal_type: int, first_signal: bool, second_signal: bool) -> bool:
    """
    pre: 0 <= hash1 < 2**32 and 0 <= hash2 < 2**32 and -2**31 <= signal_type < 2**31
    post: _
    """
    return verdict(stamp(hash1, hash2, signal_type, first_signal, second_signal))


def h_stamp_reach(hash1: int, hash2: int, signal_type: int, first_signal: bool, second_signal: bool) -> bool:
    """
    pre: 0 <= hash1 < 2**32 and 0 <= hash2 < 2**32 and -2**31 <= signal_type < 2**31
    post: _
    """
    return reached(stamp(hash1, hash2, signal_type, first_signal, second_signal))


# ------------------------------------------------------------------ known finding witness, through the real YAML front end
def kf_fields_reuse():
    """two different definitions of B (field-list reuse of A  vs  one field literally named 'fields' of type A) compiled by the
    real parser (real ruamel.yaml, real sha256): returns True iff their version hashes differ (i.e. the property holds)"""
    import os
    import shutil
    import tempfile
    d = tempfile.mkdtemp(prefix="verif_c13_")
    try:
        base = "message_defs:\n  A:\n    id: 1000\n    fields:\n      x: int32\n"
        texts = {"reuse.yaml": base + "  B:\n    id: 1001\n    fields: A\n",
                 "field.yaml": base + "  B:\n    id: 1001\n    fields:\n      fields: A\n"}
        hashes = []
        layouts = []
        for fn, t in texts.items():
            with open(os.path.join(d, fn), "w") as f:
                f.write(t)
            p = P.Parser(import_coredefs=False)
            p.logger.disabled = True
            p.parse(pathlib.Path(d) / fn)
            hashes.append(p.message_defs["B"].hash)
            layouts.append([(f.name, f.type_name) for f in p.message_defs["B"].fields])
        return not (hashes[0] == hashes[1] and layouts[0] != layouts[1])
    finally:
        shutil.rmtree(d, ignore_errors=True)


if __name__ == "__main__":
    script_main()
