"""One service step of the real manager: read_message + process_message (every branch) from an arbitrary Inv state.
Used by C03 (nothing escapes, state stays sane), C19 (acknowledgements), C06 (identity), C07 (read-side departures).

shard:
  ctrl    "CONNECT" | "CONNECT_V2" | "DISCONNECT" | "SUBSCRIBE" | "UNSUBSCRIBE" | "PAUSE_SUBSCRIPTION" | "RESUME_SUBSCRIPTION"
          | "CLIENT_SET_NAME" | "MODULE_READY" | "data"  (data: symbolic msg_type outside the control types)
  sstate  0 accepted only (not connected) | 1 connected | 2 connected + subscribed to type t0 | 3 connected + subscribed to ALL
  slog    the sender is a logger (connected states only)
  others  list of kinds: "L" logger | "A" subscribed to ALL (monitors CLIENT_INFO/CLIENT_CLOSED/FAILED_MESSAGE) | "N" no subscriptions
  names   [sender name idx, request name idx, other0 idx, other1 idx] into POOL
  recv    "full" | "short_h" | "reset_h" | "short_d" | "short_d1" | "reset_d"
  swr     0: the sender's own connection is not in the round's writable list (default 1)
  sfail   0 | 1 | 2: the sender's connection dies at its next / next-but-one sendall (write-side discovery while acknowledging)
symbolic: every header field (C range of its type), declared length in all of int32, payload ints p1..p5 in int16/int32,
          module ids, S's subscribed type t0, the dynamic-id cursor, unique flags of the others
"""
from engine import mgrworld as W
from harness.common import sh, set_shard, verdict, reached  # noqa: F401
from pyrtma.validators import disable_message_validation

M = W.M
cd = W.cd
ALL = W.ALL
ACK = cd.MT_ACKNOWLEDGE
POOL = ["", "a", "b"]
CTRL = {"CONNECT": cd.MT_CONNECT, "CONNECT_V2": cd.MT_CONNECT_V2, "DISCONNECT": cd.MT_DISCONNECT,
        "SUBSCRIBE": cd.MT_SUBSCRIBE, "UNSUBSCRIBE": cd.MT_UNSUBSCRIBE, "PAUSE_SUBSCRIPTION": cd.MT_PAUSE_SUBSCRIPTION,
        "RESUME_SUBSCRIPTION": cd.MT_RESUME_SUBSCRIPTION, "CLIENT_SET_NAME": cd.MT_CLIENT_SET_NAME,
        "MODULE_READY": cd.MT_MODULE_READY}
CTRL_IDS = tuple(CTRL.values())
SUBCTL = ("SUBSCRIBE", "UNSUBSCRIBE", "PAUSE_SUBSCRIPTION", "RESUME_SUBSCRIPTION")


class World:
    pass


def setup(ht, hsrc, hdst, hdh, nbytes, p1, p2, p3, p4, p5, sid, id1, id2, t0, off, u1, u2):
    w = World()
    ctrl = sh("ctrl")
    others = sh("others", [])
    names = sh("names", [0, 0, 0, 0])
    mm, mods = W.build(1 + len(others))
    w.mm, w.S, w.O = mm, mods[0], mods[1:]
    S = w.S
    sstate = sh("sstate", 1)
    if sstate >= 1:
        S.connected = True
        S.mod_id = sid
        S.name = POOL[names[0]]
        if sstate == 2:
            W.subscribe(mm, S, t0)
        elif sstate == 3:
            W.subscribe(mm, S, ALL)
        if sh("slog", 0):
            W.make_logger(mm, S)
    oid = [id1, id2]
    ouq = [u1, u2]
    for k, kind in enumerate(others):
        o = w.O[k]
        o.connected = True
        o.mod_id = oid[k]
        o.unique = ouq[k]
        o.name = POOL[names[2 + k]]
        if kind == "L":
            W.make_logger(mm, o)
        elif kind == "A":
            W.subscribe(mm, o, ALL)
    mm.wlist = [m.conn for m in mods]
    if not sh("swr", 1):
        mm.wlist = [m.conn for m in mods[1:]]
    mm.next_dynamic_mod_id_offset = off
    if sh("sfail", 0):
        S.conn.fail_after = sh("sfail") - 1
    w.msg_type = CTRL[ctrl] if ctrl != "data" else ht
    hf = dict(msg_type=w.msg_type, src_mod_id=hsrc, dest_mod_id=hdst, dest_host_id=hdh, src_host_id=0,
              num_data_bytes=nbytes, msg_count=3, remaining_bytes=p5, is_dynamic=0, reserved=0)
    payload = None
    rn = POOL[names[1]].encode()
    if ctrl == "CONNECT":
        payload = ("MDF_CONNECT", dict(logger_status=p1, daemon_status=p2))
    elif ctrl == "CONNECT_V2":
        payload = ("MDF_CONNECT_V2", dict(logger_status=p1, daemon_status=p2, allow_multiple=p3, mod_id=p4, pid=p5,
                                          name=rn + b"\x00" * (32 - len(rn)) if W.SHADOW else rn))
    elif ctrl in SUBCTL:
        payload = ("MDF_" + ctrl, dict(msg_type=p1))
    elif ctrl == "CLIENT_SET_NAME":
        payload = ("MDF_CLIENT_SET_NAME", dict(name=rn + b"\x00" * (32 - len(rn)) if W.SHADOW else rn))
    elif ctrl == "MODULE_READY":
        payload = ("MDF_MODULE_READY", dict(pid=p1))
    W.set_incoming(mm, hf, payload)
    recv = sh("recv", "full")
    S.conn.recv_script = {"full": ["full", "full"], "short_h": [("short", 7)], "reset_h": ["reset"],
                          "short_d": ["full", ("short", 0)], "short_d1": ["full", ("short", 1)], "reset_d": ["full", "reset"]}[recv]
    w.pre_ids = [m.mod_id for m in mods]
    w.pre_conn = [m.connected for m in mods]
    return w


def step(w):
    """the body of run() for one ready socket; returns (phase, exception) of anything that escapes"""
    mm, S = w.mm, w.S
    with disable_message_validation():
        try:
            got = mm.read_message(S.conn)
        except ConnectionError:
            try:
                mm.disconnect_module(S)  # what run() does
            except Exception as e:
                return "disconnect_module", e
            return None, None
        except Exception as e:
            return "read_message", e
        if got:
            try:
                mm.process_message(S)
            except Exception as e:
                return "process_message", e
    return None, None


def acks(m):
    return [hd for hd, p in m.conn.frames() if hd["msg_type"] == ACK]


def expected_connect(w, ctrl, hsrc, p1, p2, p3, p4):
    """reference model of C06's acceptance rule. returns (accept: bool, explicit id or 0, unique, name)"""
    names = sh("names", [0, 0, 0, 0])
    if ctrl == "CONNECT_V2":
        rid, uniq, name = p4, (p3 == 0), POOL[names[1]]
    else:
        rid, uniq, name = hsrc, True, ""   # a module that sends CONNECT alone keeps unique=True and no name
    if rid == 0:
        return True, 0, uniq, name
    if rid < 1 or rid > cd.DYN_MOD_ID_START:
        return False, rid, uniq, name
    either = False
    for k, o in enumerate(w.O):
        if w.pre_ids[1 + k] == rid and (o.unique or uniq):
            return False, rid, uniq, name
        if name and o.name == name:
            if o.unique:
                return False, rid, uniq, name   # "reuses the name of a unique module while giving an explicit id"
            if uniq:
                either = True                   # a unique newcomer sharing a non-unique module's name: the property is silent
    return (None if either else True), rid, uniq, name


def oracle(which, ht, hsrc, hdst, hdh, nbytes, p1, p2, p3, p4, p5, sid, id1, id2, t0, off, u1, u2):
    ctrl = sh("ctrl")
    recv = sh("recv", "full")
    sstate = sh("sstate", 1)
    w = setup(ht, hsrc, hdst, hdh, nbytes, p1, p2, p3, p4, p5, sid, id1, id2, t0, off, u1, u2)
    mm, S = w.mm, w.S
    mods = [S] + w.O
    phase, exc = step(w)
    if exc is not None:
        return False, "%s raised %s: %s" % (phase, type(exc).__name__, exc)
    alive = [W._contains(list(mm.modules.values()), m) for m in mods]
    # --- C03 core: the manager's tables are consistent and list exactly the open connections
    for k, m in enumerate(mods):
        if alive[k] == m.conn.closed:
            return False, "module %d: registered=%s but connection closed=%s" % (k, alive[k], m.conn.closed)
    if not W.inv_ok(mm):
        return False, "Inv broken after the step"
    for k, m in enumerate(mods):
        if k > 0 and not alive[k]:
            return False, "bystander %d removed" % k
        if alive[k] and not m.conn.whole_frames():
            return False, "module %d received a torn frame" % k
    length_ok = 0 <= nbytes <= 1024 ** 2   # a header declaring an unreceivable length makes the manager drop that client
    # short_d: the peer closes before any payload byte; short_d1: after exactly one payload byte (a frame of one byte is then whole)
    delivered = length_ok and (recv == "full" or (recv in ("short_d", "short_d1", "reset_d") and nbytes == 0)
                               or (recv == "short_d1" and nbytes == 1))
    if which == "c03":
        return True, ""

    if which == "c07":
        departs = (not delivered) or ctrl == "DISCONNECT"
        gone = not alive[0]
        refused = ctrl in ("CONNECT", "CONNECT_V2") and sstate == 0 and delivered
        if departs and not gone:
            return False, "sender still registered after leaving (%s)" % recv
        if gone and not (departs or refused or sh("sfail", 0)):
            return False, "sender removed although it did not leave"
        for k, o in enumerate(w.O):
            if sh("others")[k] == "A":
                closed = [p for hd, p in o.conn.frames() if hd["msg_type"] == cd.MT_CLIENT_CLOSED and hd["src_mod_id"] == 0
                          and p[2] is not None and W.pfield(p, "uid") == 1]
                if len(closed) != (1 if gone else 0):
                    return False, "monitor saw %d CLIENT_CLOSED notices about the sender, expected %d" % (len(closed), 1 if gone else 0)
                for p in closed:
                    if not (W.pfield(p, "mod_id") == S.mod_id and W.pfield(p, "name") == S.name.encode()
                            and W.pfield(p, "is_logger") == (1 if S.is_logger else 0)
                            and W.pfield(p, "is_unique") == (1 if S.unique else 0)):
                        return False, "CLIENT_CLOSED does not describe the departed module"
                    if departs and not refused and W.pfield(p, "mod_id") != w.pre_ids[0]:
                        return False, "CLIENT_CLOSED carries another module id"
        if gone:
            if S in mm.logger_modules:
                return False, "departed module still a logger"
            for t, s in mm.subscriptions.items():
                if S in s:
                    return False, "departed module still subscribed"
        if departs:
            # id and name can be reused immediately
            if sstate >= 1 and 1 <= w.pre_ids[0] <= cd.DYN_MOD_ID_START:
                clash = False
                for k, o in enumerate(w.O):
                    if o.mod_id == w.pre_ids[0] or (S.name and o.name == S.name):
                        clash = True
                if not clash:
                    c = W.FakeConn(S.conn.i)     # the OS hands the descriptor that was just closed to the next accept()
                    fresh = M.Module(uid=99, conn=c, address=("10.0.0.9", 1), header_cls=mm.header_cls)
                    if W.SHADOW:
                        fresh.subs = W.LinearSet()
                    mm.modules[c] = fresh
                    mm.wlist.append(c)
                    W.set_incoming(mm, dict(msg_type=cd.MT_CONNECT_V2, src_mod_id=0, num_data_bytes=44),
                                   ("MDF_CONNECT_V2", dict(mod_id=w.pre_ids[0], allow_multiple=0,
                                                           name=(S.name.encode() + b"\x00" * (32 - len(S.name))) if W.SHADOW else S.name.encode())))
                    with disable_message_validation():
                        mm.process_message(fresh)
                    if not (fresh.connected and fresh.mod_id == w.pre_ids[0] and len(acks(fresh)) == 1):
                        return False, "id/name of the departed module could not be reused at once"
                    if acks(fresh)[0]["dest_mod_id"] != fresh.mod_id or acks(fresh)[0]["src_mod_id"] != 0:
                        return False, "the newcomer's acknowledgement is not addressed to it"
        return True, ""

    # --- acknowledgement bookkeeping (C19) and identity (C06)
    accept = None
    if ctrl in ("CONNECT", "CONNECT_V2") and delivered and sstate == 0:
        accept, rid, uniq, name = expected_connect(w, ctrl, hsrc, p1, p2, p3, p4)
        if accept is None and which == "c19":
            accept = alive[0]
    if which == "c19":
        want = 0
        if delivered:
            if ctrl in SUBCTL:
                want = 1
            elif accept:
                want = 1
        nlog = len([1 for k, o in enumerate(w.O) if sh("others")[k] == "L"])
        s_is_logger_now = S in mm.logger_modules and alive[0]
        sfail = sh("sfail", 0)
        if alive[0] and not sfail:
            a = acks(S)
            exp = want + (want if s_is_logger_now else 0)   # own ACK + the logger copy when the sender is itself a logger
            if len(a) != exp:
                return False, "sender got %d ACKs, expected %d" % (len(a), exp)
            for hd in a:
                if hd["dest_mod_id"] != S.mod_id or hd["src_mod_id"] != 0 or hd["num_data_bytes"] != 0:
                    return False, "ACK not addressed to the sending module"
        for k, o in enumerate(w.O):
            a = acks(o)
            exp = want if sh("others")[k] == "L" else 0
            if len(a) != exp:
                return False, "module %d (%s) got %d ACKs, expected %d" % (k + 1, sh("others")[k], len(a), exp)
            for hd in a:
                if hd["dest_mod_id"] != S.mod_id or hd["src_mod_id"] != 0:
                    return False, "logger copy of the ACK is not the sender's ACK"
        return True, ""

    if which == "c06":
        if not (ctrl in ("CONNECT", "CONNECT_V2") and delivered and sstate == 0):
            return True, ""
        if accept is None:
            accept = alive[0]   # either outcome is allowed; whichever happened must still be carried out cleanly
        if not accept:
            if alive[0] or not S.conn.closed:
                return False, "request that must be refused was not refused (connection left open)"
            if len(S.conn.calls) != 0:
                return False, "refused request was answered"
        else:
            if not (alive[0] and S.connected):
                return False, "acceptable request was refused"
            a = acks(S)
            if len(a) < 1 or a[0]["dest_mod_id"] != S.mod_id:
                return False, "no ACK carrying the module id"
            if rid != 0:
                if S.mod_id != rid:
                    return False, "module id differs from the requested id"
            else:
                if not (cd.DYN_MOD_ID_START <= S.mod_id < cd.MAX_MODULES):
                    return False, "dynamic id outside the dynamic range"
                for k, o in enumerate(w.O):
                    if o.mod_id == S.mod_id:
                        return False, "dynamic id already held by a live module"
            if S.unique != uniq or S.name != name:
                return False, "allow_multiple / name not honoured"
            if S.is_logger != (p1 == 1) or S.is_daemon != (p2 == 1):
                return False, "logger/daemon status not honoured"
            if (S in mm.logger_modules) != (p1 == 1):
                return False, "logger set does not match logger_status"
        # incumbents undisturbed
        for k, o in enumerate(w.O):
            if not (alive[1 + k] and o.mod_id == w.pre_ids[1 + k] and o.connected):
                return False, "incumbent disturbed"
        # I5
        live = [m for k, m in enumerate(mods) if alive[k] and m.connected]
        for i in range(len(live)):
            if not (1 <= live[i].mod_id < cd.MAX_MODULES):
                return False, "connected module with id outside 1..MAX_MODULES-1"
            for j in range(i + 1, len(live)):
                if live[i].mod_id == live[j].mod_id and (live[i].unique or live[j].unique):
                    return False, "two connected modules share an id although one of them is unique"
        return True, ""
    return False, "unknown oracle"


def _pre(ht, hsrc, hdst, hdh, nbytes, p1, p2, p3, p4, p5, sid, id1, id2, t0, off, u1, u2):
    ctrl = sh("ctrl")
    if ctrl == "data" and (ht in CTRL_IDS or ht == ACK):
        return False   # a client-published frame of type ACKNOWLEDGE is ordinary data, indistinguishable from an ACK on the wire: excluded
    no = len(sh("others", []))
    # Inv I5 on the pre-state: connected modules have ids 1..199, equal ids only if neither is unique
    ids = [sid, id1, id2]
    if sh("sstate", 1) == 0 and sid != 0:
        return False
    if sh("sstate", 1) >= 1 and not (1 <= sid <= 199):
        return False
    for k in range(2):
        if k < no:
            if not (1 <= ids[1 + k] <= 199):
                return False
        elif ids[1 + k] != 0 or [u1, u2][k]:
            return False
    if no >= 1 and sh("sstate", 1) >= 1 and sid == id1:
        return False   # the sender is unique (default) in this model
    if no >= 2 and sh("sstate", 1) >= 1 and sid == id2:
        return False
    if no >= 2 and id1 == id2 and (u1 or u2):
        return False
    names = sh("names", [0, 0, 0, 0])
    if no >= 2 and names[2] and names[2] == names[3] and (u1 or u2):
        return False
    if sh("sstate", 1) != 2 and t0 != 0:
        return False
    return True


# ---- entry points (explicit text: CrossHair reads contracts from the source) ----


def c03(ht: int, hsrc: int, hdst: int, hdh: int, nbytes: int, p1: int, p2: int, p3: int, p4: int, p5: int, sid: int, id1: int, id2: int, t0: int, off: int, u1: bool, u2: bool) -> bool:
    """
    pre: -2**31 <= ht < 2**31 and ht != 2147483647 and -2**15 <= hsrc < 2**15 and -2**15 <= hdst < 2**15 and -2**15 <= hdh < 2**15
    pre: -2**31 <= nbytes < 2**31 and -2**31 <= p1 < 2**31 and -2**15 <= p2 < 2**15 and -2**15 <= p3 < 2**15 and -2**15 <= p4 < 2**15
    pre: -2**31 <= p5 < 2**31 and -2**31 <= t0 < 2**31 and t0 != 2147483647 and 0 <= off <= 99
    pre: _pre(ht, hsrc, hdst, hdh, nbytes, p1, p2, p3, p4, p5, sid, id1, id2, t0, off, u1, u2)
    post: _
    """
    return verdict(oracle("c03", ht, hsrc, hdst, hdh, nbytes, p1, p2, p3, p4, p5, sid, id1, id2, t0, off, u1, u2))


def c03_reach(ht: int, hsrc: int, hdst: int, hdh: int, nbytes: int, p1: int, p2: int, p3: int, p4: int, p5: int, sid: int, id1: int, id2: int, t0: int, off: int, u1: bool, u2: bool) -> bool:
    """
    pre: -2**31 <= ht < 2**31 and ht != 2147483647 and -2**15 <= hsrc < 2**15 and -2**15 <= hdst < 2**15 and -2**15 <= hdh < 2**15
    pre: -2**31 <= nbytes < 2**31 and -2**31 <= p1 < 2**31 and -2**15 <= p2 < 2**15 and -2**15 <= p3 < 2**15 and -2**15 <= p4 < 2**15
    pre: -2**31 <= p5 < 2**31 and -2**31 <= t0 < 2**31 and t0 != 2147483647 and 0 <= off <= 99
    pre: _pre(ht, hsrc, hdst, hdh, nbytes, p1, p2, p3, p4, p5, sid, id1, id2, t0, off, u1, u2)
    post: _
    """
    return reached(oracle("c03", ht, hsrc, hdst, hdh, nbytes, p1, p2, p3, p4, p5, sid, id1, id2, t0, off, u1, u2))


def c19(ht: int, hsrc: int, hdst: int, hdh: int, nbytes: int, p1: int, p2: int, p3: int, p4: int, p5: int, sid: int, id1: int, id2: int, t0: int, off: int, u1: bool, u2: bool) -> bool:
    """
    pre: -2**31 <= ht < 2**31 and ht != 2147483647 and -2**15 <= hsrc < 2**15 and -2**15 <= hdst < 2**15 and -2**15 <= hdh < 2**15
    pre: -2**31 <= nbytes < 2**31 and -2**31 <= p1 < 2**31 and -2**15 <= p2 < 2**15 and -2**15 <= p3 < 2**15 and -2**15 <= p4 < 2**15
    pre: -2**31 <= p5 < 2**31 and -2**31 <= t0 < 2**31 and t0 != 2147483647 and 0 <= off <= 99
    pre: _pre(ht, hsrc, hdst, hdh, nbytes, p1, p2, p3, p4, p5, sid, id1, id2, t0, off, u1, u2)
    post: _
    """
    return verdict(oracle("c19", ht, hsrc, hdst, hdh, nbytes, p1, p2, p3, p4, p5, sid, id1, id2, t0, off, u1, u2))


def c19_reach(ht: int, hsrc: int, hdst: int, hdh: int, nbytes: int, p1: int, p2: int, p3: int, p4: int, p5: int, sid: int, id1: int, id2: int, t0: int, off: int, u1: bool, u2: bool) -> bool:
    """
    pre: -2**31 <= ht < 2**31 and ht != 2147483647 and -2**15 <= hsrc < 2**15 and -2**15 <= hdst < 2**15 and -2**15 <= hdh < 2**15
    pre: -2**31 <= nbytes < 2**31 and -2**31 <= p1 < 2**31 and -2**15 <= p2 < 2**15 and -2**15 <= p3 < 2**15 and -2**15 <= p4 < 2**15
    pre: -2**31 <= p5 < 2**31 and -2**31 <= t0 < 2**31 and t0 != 2147483647 and 0 <= off <= 99
    pre: _pre(ht, hsrc, hdst, hdh, nbytes, p1, p2, p3, p4, p5, sid, id1, id2, t0, off, u1, u2)
    post: _
    """
    return reached(oracle("c19", ht, hsrc, hdst, hdh, nbytes, p1, p2, p3, p4, p5, sid, id1, id2, t0, off, u1, u2))


def c06(ht: int, hsrc: int, hdst: int, hdh: int, nbytes: int, p1: int, p2: int, p3: int, p4: int, p5: int, sid: int, id1: int, id2: int, t0: int, off: int, u1: bool, u2: bool) -> bool:
    """
    pre: -2**31 <= ht < 2**31 and ht != 2147483647 and -2**15 <= hsrc < 2**15 and -2**15 <= hdst < 2**15 and -2**15 <= hdh < 2**15
    pre: -2**31 <= nbytes < 2**31 and -2**31 <= p1 < 2**31 and -2**15 <= p2 < 2**15 and -2**15 <= p3 < 2**15 and -2**15 <= p4 < 2**15
    pre: -2**31 <= p5 < 2**31 and -2**31 <= t0 < 2**31 and t0 != 2147483647 and 0 <= off <= 99
    pre: _pre(ht, hsrc, hdst, hdh, nbytes, p1, p2, p3, p4, p5, sid, id1, id2, t0, off, u1, u2)
    post: _
    """
    return verdict(oracle("c06", ht, hsrc, hdst, hdh, nbytes, p1, p2, p3, p4, p5, sid, id1, id2, t0, off, u1, u2))


def c06_reach(ht: int, hsrc: int, hdst: int, hdh: int, nbytes: int, p1: int, p2: int, p3: int, p4: int, p5: int, sid: int, id1: int, id2: int, t0: int, off: int, u1: bool, u2: bool) -> bool:
    """
    pre: -2**31 <= ht < 2**31 and ht != 2147483647 and -2**15 <= hsrc < 2**15 and -2**15 <= hdst < 2**15 and -2**15 <= hdh < 2**15
    pre: -2**31 <= nbytes < 2**31 and -2**31 <= p1 < 2**31 and -2**15 <= p2 < 2**15 and -2**15 <= p3 < 2**15 and -2**15 <= p4 < 2**15
    pre: -2**31 <= p5 < 2**31 and -2**31 <= t0 < 2**31 and t0 != 2147483647 and 0 <= off <= 99
    pre: _pre(ht, hsrc, hdst, hdh, nbytes, p1, p2, p3, p4, p5, sid, id1, id2, t0, off, u1, u2)
    post: _
    """
    return reached(oracle("c06", ht, hsrc, hdst, hdh, nbytes, p1, p2, p3, p4, p5, sid, id1, id2, t0, off, u1, u2))


def c07(ht: int, hsrc: int, hdst: int, hdh: int, nbytes: int, p1: int, p2: int, p3: int, p4: int, p5: int, sid: int, id1: int, id2: int, t0: int, off: int, u1: bool, u2: bool) -> bool:
    """
    pre: -2**31 <= ht < 2**31 and ht != 2147483647 and -2**15 <= hsrc < 2**15 and -2**15 <= hdst < 2**15 and -2**15 <= hdh < 2**15
    pre: -2**31 <= nbytes < 2**31 and -2**31 <= p1 < 2**31 and -2**15 <= p2 < 2**15 and -2**15 <= p3 < 2**15 and -2**15 <= p4 < 2**15
    pre: -2**31 <= p5 < 2**31 and -2**31 <= t0 < 2**31 and t0 != 2147483647 and 0 <= off <= 99
    pre: _pre(ht, hsrc, hdst, hdh, nbytes, p1, p2, p3, p4, p5, sid, id1, id2, t0, off, u1, u2)
    post: _
    """
    return verdict(oracle("c07", ht, hsrc, hdst, hdh, nbytes, p1, p2, p3, p4, p5, sid, id1, id2, t0, off, u1, u2))


def c07_reach(ht: int, hsrc: int, hdst: int, hdh: int, nbytes: int, p1: int, p2: int, p3: int, p4: int, p5: int, sid: int, id1: int, id2: int, t0: int, off: int, u1: bool, u2: bool) -> bool:
    """
    pre: -2**31 <= ht < 2**31 and ht != 2147483647 and -2**15 <= hsrc < 2**15 and -2**15 <= hdst < 2**15 and -2**15 <= hdh < 2**15
    pre: -2**31 <= nbytes < 2**31 and -2**31 <= p1 < 2**31 and -2**15 <= p2 < 2**15 and -2**15 <= p3 < 2**15 and -2**15 <= p4 < 2**15
    pre: -2**31 <= p5 < 2**31 and -2**31 <= t0 < 2**31 and t0 != 2147483647 and 0 <= off <= 99
    pre: _pre(ht, hsrc, hdst, hdh, nbytes, p1, p2, p3, p4, p5, sid, id1, id2, t0, off, u1, u2)
    post: _
    """
    return reached(oracle("c07", ht, hsrc, hdst, hdh, nbytes, p1, p2, p3, p4, p5, sid, id1, id2, t0, off, u1, u2))


# ---- control payload `name` made of arbitrary bytes (C03) ----
def name_step(b):
    ctrl = sh("ctrl")
    mm, mods = W.build(2)
    S, A = mods
    A.connected = True
    A.mod_id = 150
    W.subscribe(mm, A, ALL)
    if ctrl == "CLIENT_SET_NAME":
        S.connected = True
        S.mod_id = 20
    mm.wlist = [S.conn, A.conn]
    raw = b + b"\x00" * (32 - len(b)) if W.SHADOW else b
    if ctrl == "CONNECT_V2":
        W.set_incoming(mm, dict(msg_type=cd.MT_CONNECT_V2, num_data_bytes=44), ("MDF_CONNECT_V2", dict(mod_id=20, name=raw)))
    else:
        W.set_incoming(mm, dict(msg_type=cd.MT_CLIENT_SET_NAME, src_mod_id=20, num_data_bytes=32), ("MDF_CLIENT_SET_NAME", dict(name=raw)))
    w = World()
    w.mm, w.S, w.O = mm, S, [A]
    phase, exc = step(w)
    if exc is not None:
        return False, "%s raised %s for name bytes" % (phase, type(exc).__name__)
    alive = W._contains(list(mm.modules.values()), S)
    if alive == S.conn.closed:
        return False, "tables do not match open connections"
    if not W._contains(list(mm.modules.values()), A) or not A.conn.whole_frames():
        return False, "bystander disturbed"
    return True, ""


def c03_name(b: bytes) -> bool:
    """
    pre: len(b) <= 3 and all(x != 0 for x in b)
    post: _
    """
    return verdict(name_step(b))


def c03_name_reach(b: bytes) -> bool:
    """
    pre: len(b) <= 3 and all(x != 0 for x in b)
    post: _
    """
    return reached(name_step(b))


# ---- every dynamic id in use (C03 / C06) ----
def dyn_full(off, hole):
    """100 live modules hold the dynamic ids 100..199, except `hole` (0: none free). A client asks for id 0."""
    mm, mods = W.build(1)
    S = mods[0]
    with W.NoTracing():
        for i in range(100):
            c = W.FakeConn(100 + i)
            mm.modules[c] = M.Module(uid=100 + i, conn=c, address=("h", 1), header_cls=mm.header_cls, connected=True, mod_id=100 + i)
    if hole:
        for m in mm.modules.values():
            if m.mod_id == hole:
                m.mod_id = 7
    mm.wlist = [S.conn]
    mm.next_dynamic_mod_id_offset = off
    W.set_incoming(mm, dict(msg_type=cd.MT_CONNECT, src_mod_id=0, num_data_bytes=4), ("MDF_CONNECT", dict()))
    w = World()
    w.mm, w.S, w.O = mm, S, []
    phase, exc = step(w)
    if exc is not None:
        return False, "%s raised %s when every dynamic id is in use" % (phase, type(exc).__name__)
    alive = W._contains(list(mm.modules.values()), S)
    if hole:
        if not (alive and S.connected and S.mod_id == hole and len(acks(S)) == 1):
            return False, "the one free dynamic id was not assigned"
    else:
        if alive or not S.conn.closed or len(S.conn.calls) != 0:
            return False, "request must be refused and closed when no dynamic id is free"
    return True, ""


def c03_dyn(hole: int) -> bool:
    """
    pre: hole == 0 or 100 <= hole <= 199
    post: _
    """
    return verdict(dyn_full(sh("off", 0), hole))


def c03_dyn_reach(hole: int) -> bool:
    """
    pre: hole == 0 or 100 <= hole <= 199
    post: _
    """
    return reached(dyn_full(sh("off", 0), hole))
