"""C01 (sending side): the frame a client writes for send_message / send_signal carries exactly what the caller passed -
type, source (the client's own module and host id), destination module and host, declared length = size of the payload it
then writes - and an invalid destination is refused before anything is written.

symbolic: destination module / host ids (any int), the client's module id 1..99 and host id (int16), the signal type
"""
from engine import cliworld as CW
from harness.common import sh, set_shard, verdict, reached  # noqa: F401

C = CW.C
cd = CW.cd


def scenario(dest_mod, dest_host, mod_id, host_id, signal_type, as_signal, count):
    c = CW.new_client(module_id=mod_id, host_id=host_id)
    c._msg_count = count
    sent = []

    def rec(buf):
        real = getattr(type(buf), "_real", type(buf))
        if issubclass(real, CW.MessageHeader):
            sent.append(("H", buf._msg_type, buf._src_mod_id, buf._src_host_id, buf._dest_mod_id, buf._dest_host_id, buf._num_data_bytes, buf._msg_count))
        else:
            sent.append(("P", buf))

    c._sendall = rec

    class FakeSock:
        def close(self):
            pass
    c._sock = FakeSock()
    data = CW.SH.shadow_of(cd.MDF_CONNECT_V2)() if CW.SHADOW else cd.MDF_CONNECT_V2()
    exc = None
    try:
        try:
            if as_signal:
                c.send_signal(signal_type, dest_mod, dest_host)
            else:
                c.send_message(data, dest_mod, dest_host)
        except (C.InvalidDestinationModule, C.InvalidDestinationHost) as e:
            exc = e
        except Exception as e:
            return False, "send raised %s: %s" % (type(e).__name__, e)
    finally:
        c._connected = False
    valid = 0 <= dest_mod <= cd.MAX_MODULES and 0 <= dest_host <= cd.MAX_HOSTS
    if not valid:
        if exc is None or sent:
            return False, "a destination outside the valid range was not refused before sending"
        return True, ""
    if exc is not None:
        return False, "a valid destination was refused"
    if not sent or sent[0][0] != "H":
        return False, "no header written"
    _, mt, sm, shh, dm, dh, nb, mc = sent[0]
    if not (sm == mod_id and shh == host_id):
        return False, "source ids in the header are not the client's own"
    if not (dm == dest_mod and dh == dest_host):
        return False, "destination ids in the header are not the ones the caller passed"
    if mc != count:
        return False, "msg_count is not the client's running count"
    if as_signal:
        if not (mt == signal_type and nb == 0 and len(sent) == 1):
            return False, "signal frame: wrong type, a declared length or a payload"
    else:
        if not (mt == cd.MT_CONNECT_V2 and nb == 44 and len(sent) == 2 and sent[1][0] == "P" and sent[1][1] is data):
            return False, "message frame: type/declared length/payload object are not those of the message passed"
    if c._msg_count != count + 1:
        return False, "the client's message count did not advance by one"
    return True, ""


def frame(dest_mod: int, dest_host: int, mod_id: int, host_id: int, signal_type: int, as_signal: bool, count: int) -> bool:
    """
    pre: -2**31 <= dest_mod < 2**31 and -2**31 <= dest_host < 2**31 and 1 <= mod_id <= 99 and -2**15 <= host_id < 2**15
    pre: -2**31 <= signal_type < 2**31 and 0 <= count < 2**30
    post: _
    """
    return verdict(scenario(dest_mod, dest_host, mod_id, host_id, signal_type, as_signal, count))


def frame_reach(dest_mod: int, dest_host: int, mod_id: int, host_id: int, signal_type: int, as_signal: bool, count: int) -> bool:
    """
    pre: -2**31 <= dest_mod < 2**31 and -2**31 <= dest_host < 2**31 and 1 <= mod_id <= 99 and -2**15 <= host_id < 2**15
    pre: -2**31 <= signal_type < 2**31 and 0 <= count < 2**30
    post: _
    """
    return reached(scenario(dest_mod, dest_host, mod_id, host_id, signal_type, as_signal, count))
