"""C08: real Client.read_message / _read_message over a scripted frame stream.

The socket stand-in holds a script of frames and tracks the read position; a header read that does not start on a frame
boundary is the desynchronisation the property forbids (Desync).  The peer may close (FIN) or reset (RST) the connection at
a symbolic byte offset.

shard: nframes (1..3), mode = "none" | "fin" | "rst", state = "all" | "sub" | "none" (client subscribed to all / to D1's type /
       to nothing), ack (bool), sync (bool), timeout = "none" | "zero" | "pos" (0.5 s; shard tick = seconds the clock advances per
       reading: 0.001 -> the timeout never runs out, 1.0 -> it has run out by the time the first queued frame has been read;
       the socket stays readable, so a positive timeout must behave like a blocking read whether or not the time is used up:
       an unsubscribed frame is never handed to the caller)
symbolic: per frame msg_type (int32), declared size 0..65535, version (uint32); the offset at which the peer closes/resets
"""
import pyrtma.message as MSG
from engine import cliworld as CW
from engine import shadow as SH
from engine import standins
from harness.common import sh, set_shard, verdict, reached  # noqa: F401
from pyrtma.exceptions import UnknownMessageType, InvalidMessageDefinition, ConnectionLost

C = CW.C
cd = CW.cd
ALL = CW.ALL
HS = 48  # sizeof(MessageHeader)
REAL_DEFS = [cd.MDF_MODULE_READY, cd.MDF_CONNECT_V2, cd.MDF_ACKNOWLEDGE]
DEFS = [(r.type_id, (SH.shadow_of(r) if CW.SHADOW else r)) for r in REAL_DEFS]
MSG._msg_defs = standins.LinearDict(None, DEFS) if CW.SHADOW else dict(DEFS)


import socket as _sock
_WAITALL = _sock.MSG_WAITALL


class Desync(Exception):
    pass


class ScriptSock:
    def __init__(self, frames, mode, cut):
        self.frames = frames
        self.starts = []
        p = 0
        for f in frames:
            self.starts.append(p)
            p += HS + f[1]
        self.end = p
        self.pos = 0
        self.mode = mode
        self.cut = cut if mode != "none" else p   # bytes available before FIN/RST; "none": the peer closes after the script
        self.filled = []
        self.closed = False

    def _take(self, n, flags=_WAITALL):
        """number of bytes a read of n bytes yields at the current position.  With MSG_WAITALL: n, or fewer only if the
        connection ends first.  Without it a read returns as soon as SOME bytes are there: the peer's bytes arrive in pieces of
        `chunk` bytes (shard, default 1), so such a read yields at most that many."""
        if n < 0:
            raise ValueError("negative buffersize in recv")
        if not (flags & _WAITALL) and n > sh("chunk", 1):
            n = sh("chunk", 1)
        avail = self.cut - self.pos
        if avail < 0:
            avail = 0
        if n <= avail:
            self.pos += n
            return n
        # the connection ends inside this read
        self.pos += avail
        if self.mode == "rst":
            raise ConnectionResetError(104, "Connection reset by peer")
        return avail

    def recv_into(self, buf, n=0, flags=0):
        if n == 0:
            n = len(buf)
        if _is_header(buf):
            k = None
            for j in range(len(self.starts)):
                if self.starts[j] == self.pos:
                    k = j
            if k is None and self.pos != self.end and self.cut - self.pos > 0:
                raise Desync("header read at offset %s, which is not a frame boundary" % (self.pos,))
            want = n
            got = self._take(n, flags)
            if got == want:
                mt, nb, ver = self.frames[k]
                _fill_header(buf, mt, nb, ver, k)
            return got
        start = self.pos
        got = self._take(n, flags)
        self.filled.append((buf, start, got))
        return got

    def recv(self, n, flags=0):
        got = self._take(n, flags)
        return b"\x00" * got if not CW.SHADOW else _Blob(got)

    def close(self):
        self.closed = True


class _Blob:
    def __init__(self, n):
        self.n = n

    def __len__(self):
        return self.n


def _is_header(buf):
    real = getattr(type(buf), "_real", type(buf))
    return issubclass(real, CW.MessageHeader)


def _fill_header(h, mt, nb, ver, k):
    vals = dict(msg_type=mt, num_data_bytes=nb, reserved=ver, msg_count=k + 1, src_mod_id=5, dest_mod_id=0)
    for f, v in vals.items():
        if CW.SHADOW:
            h.__dict__["$" + f] = v
        else:
            setattr(h, "_" + f, v)


def scenario(m0, n0, v0, m1, n1, v1, m2, n2, v2, cut):
    nf = sh("nframes", 2)
    frames = [(m0, n0, v0), (m1, n1, v1), (m2, n2, v2)][:nf]
    mode = sh("mode", "none")
    state = sh("state", "all")
    ack = bool(sh("ack", 0))
    sync = bool(sh("sync", 0))
    timeout = {"none": None, "zero": 0, "pos": 0.5}[sh("timeout", "none")]
    C.time.t = 0.0
    C.time.tick = sh("tick", 0.001)
    c = CW.new_client()
    sock = ScriptSock(frames, mode, cut)
    c._sock = sock
    D1 = REAL_DEFS[0]
    if state == "all":
        c._sub_all = True
        c._subscribed_types = CW.mkset([ALL])
    elif state == "sub":
        c._subscribed_types = CW.mkset([D1.type_id])
    try:
        nxt = 0          # index of the next frame the stream will present
        dead = False
        for ci in range(nf + 1):
            if nxt > nf:
                break
            if ci == 1 and sh("state2") is not None:
                # the subscription set changes between two reads (frames of the old set may already be queued)
                state = sh("state2")
                c._sub_all = state == "all"
                c._subscribed_types = CW.mkset([ALL] if state == "all" else ([D1.type_id] if state == "sub" else []))
            try:
                m = c.read_message(timeout=timeout, ack=ack, sync_check=sync)
                outcome = "msg" if m is not None else "none"
            except UnknownMessageType:
                outcome, m = "unknown", None
            except InvalidMessageDefinition:
                outcome, m = "invalid", None
            except ConnectionLost:
                outcome, m = "lost", None
            except C.NotConnectedError:
                outcome, m = "notconnected", None
            except Desync as e:
                return False, "stream desynchronised: %s" % e
            except Exception as e:
                return False, "read_message raised %s: %s" % (type(e).__name__, e)
            if dead:
                if outcome not in ("lost", "notconnected") or c.connected:
                    return False, "after the connection was lost a read still reported %s (connected=%s)" % (outcome, c.connected)
                break
            if outcome == "lost":
                if c.connected:
                    return False, "ConnectionLost raised but the client still reports connected"
                if sock.pos < sock.cut and sock.pos < sock.end:
                    return False, "ConnectionLost raised although the stream had more bytes"
                break
            if outcome == "notconnected":
                return False, "client disconnected without reporting ConnectionLost"
            # the frames this call must have consumed: skipped ones first, then the one it reports
            while True:
                if nxt >= nf:
                    return False, "read reported %s but the script has no frame left" % outcome
                mt, nb, ver = frames[nxt]
                fr_end = sock.starts[nxt] + HS + nb
                known = None
                for tid, cls in DEFS:
                    if tid == mt:
                        known = cls
                if sock.cut < fr_end:
                    # the connection ends inside this frame: its decode error may still be reported once, then ConnectionLost
                    undecodable = (known is None and outcome == "unknown") or (
                        known is not None and outcome == "invalid"
                        and (known.type_size != nb or (sync and ver != 0 and ver != known.type_hash)))
                    if undecodable:
                        dead = True
                        nxt += 1
                        break
                    return False, "read reported %s for a frame the connection cut short" % outcome
                if known is None:
                    want = "unknown"
                elif known.type_size != nb:
                    want = "invalid"
                elif sync and ver != 0 and ver != known.type_hash:
                    want = "invalid"
                else:
                    wanted = state == "all" or (state == "sub" and mt == D1.type_id) or (ack and mt == cd.MT_ACKNOWLEDGE)
                    if not wanted:
                        # a frame of a type the client is not subscribed to: consumed silently
                        nxt += 1
                        if timeout == 0:
                            want = "none"
                            if outcome != "none":
                                return False, "unsubscribed frame was returned (timeout=0)"
                            break
                        continue
                    want = "msg"
                if outcome != want:
                    return False, "frame %d: expected %s, read reported %s" % (nxt, want, outcome)
                if sock.pos != fr_end:
                    return False, "frame %d: %s bytes consumed, frame ends at %s" % (nxt, sock.pos, fr_end)
                if want == "msg":
                    hd = m.header
                    if not (hd._msg_type == mt and hd._num_data_bytes == nb and hd._reserved == ver and hd._msg_count == nxt + 1
                            and hd._src_mod_id == 5):
                        return False, "returned header differs from the frame"
                    if nb:
                        buf, start, got = sock.filled[-1]
                        if not (buf is m.data and start == sock.starts[nxt] + HS and got == nb):
                            return False, "payload not read from right behind its header"
                    real = getattr(type(m.data), "_real", type(m.data))
                    if real.type_id != mt:
                        return False, "payload decoded with another definition"
                nxt += 1
                break
        return True, ""
    finally:
        c._connected = False


def _pre(m0, n0, v0, m1, n1, v1, m2, n2, v2, cut):
    nf = sh("nframes", 2)
    fr = [(m0, n0, v0), (m1, n1, v1), (m2, n2, v2)]
    for k in range(3):
        if k >= nf and fr[k] != (0, 0, 0):
            return False
    if sh("mode", "none") == "none":
        if cut != 0:
            return False
    else:
        end = 0
        for k in range(nf):
            end += HS + fr[k][1]
        if cut > end:
            return False   # the peer ends the stream somewhere inside (or right after) what it sent
    return True


def read(m0: int, n0: int, v0: int, m1: int, n1: int, v1: int, m2: int, n2: int, v2: int, cut: int) -> bool:
    """
    pre: -2**31 <= m0 < 2**31 and -2**31 <= m1 < 2**31 and -2**31 <= m2 < 2**31
    pre: 0 <= n0 <= 65535 and 0 <= n1 <= 65535 and 0 <= n2 <= 65535
    pre: 0 <= v0 < 2**32 and 0 <= v1 < 2**32 and 0 <= v2 < 2**32 and 0 <= cut <= 3 * (48 + 65535)
    pre: _pre(m0, n0, v0, m1, n1, v1, m2, n2, v2, cut)
    post: _
    """
    return verdict(scenario(m0, n0, v0, m1, n1, v1, m2, n2, v2, cut))


def read_reach(m0: int, n0: int, v0: int, m1: int, n1: int, v1: int, m2: int, n2: int, v2: int, cut: int) -> bool:
    """
    pre: -2**31 <= m0 < 2**31 and -2**31 <= m1 < 2**31 and -2**31 <= m2 < 2**31
    pre: 0 <= n0 <= 65535 and 0 <= n1 <= 65535 and 0 <= n2 <= 65535
    pre: 0 <= v0 < 2**32 and 0 <= v1 < 2**32 and 0 <= v2 < 2**32 and 0 <= cut <= 3 * (48 + 65535)
    pre: _pre(m0, n0, v0, m1, n1, v1, m2, n2, v2, cut)
    post: _
    """
    return reached(scenario(m0, n0, v0, m1, n1, v1, m2, n2, v2, cut))


# ---------------------------------------------------------------- waiting for the acknowledgement (C19 / C06: the client side)
def ack_wait(k0, k1, k2):
    """the real Client._wait_for_acknowledgement over a scripted stream of decodable frames (kinds 0 ACKNOWLEDGE, 1 MODULE_READY,
    2 CONNECT_V2): it returns the FIRST acknowledgement of the stream - whatever the client is subscribed to and whatever
    precedes it - having consumed exactly the frames up to and including it; without one, the loss of the connection is reported.
    shard: nframes 1..3, state all|sub|none, timeout "block" (-1) | "timed" (3 s, clock tick from shard)"""
    nf = sh("nframes", 2)
    kinds = [k0, k1, k2][:nf]
    table = [(cd.MT_ACKNOWLEDGE, 0), (REAL_DEFS[0].type_id, REAL_DEFS[0].type_size), (REAL_DEFS[1].type_id, REAL_DEFS[1].type_size)]
    frames = [(table[k][0], table[k][1], 0) for k in kinds]
    state = sh("state", "none")
    C.time.t = 0.0
    C.time.tick = sh("tick", 0.001)
    c = CW.new_client()
    sock = ScriptSock(frames, "none", 0)
    c._sock = sock
    if state == "all":
        c._sub_all = True
        c._subscribed_types = CW.mkset([ALL])
    elif state == "sub":
        c._subscribed_types = CW.mkset([REAL_DEFS[0].type_id])
    first = None
    for i, k in enumerate(kinds):
        if k == 0 and first is None:
            first = i
    timed = sh("timeout", "block") == "timed"
    try:
        try:
            m = c._wait_for_acknowledgement(3 if timed else -1)
            outcome = "ack"
        except ConnectionLost:
            outcome, m = "lost", None
        except C.AcknowledgementTimeout:
            outcome, m = "timeout", None
        except Desync as e:
            return False, "stream desynchronised: %s" % e
        except Exception as e:
            return False, "_wait_for_acknowledgement raised %s: %s" % (type(e).__name__, e)
        if outcome == "timeout":
            if not timed:
                return False, "a blocking wait timed out"
            if sh("tick", 0.001) < 1.0:
                return False, "timed out although the clock had not used up the timeout"
            return True, ""
        if first is None:
            if outcome != "lost" or c.connected:
                return False, "no acknowledgement in the stream, yet the wait reported %s" % outcome
            return True, ""
        if outcome != "ack":
            return False, "an acknowledgement was in the stream but the wait reported %s" % outcome
        if m.header._msg_type != cd.MT_ACKNOWLEDGE:
            return False, "the wait returned a message that is not an acknowledgement"
        if m.header._msg_count != first + 1:
            return False, "the wait did not return the FIRST acknowledgement of the stream"
        if sock.pos != sock.starts[first] + HS:
            return False, "the wait consumed more or less than the frames up to the acknowledgement"
        return True, ""
    finally:
        c._connected = False


def h_ack_wait(k0: int, k1: int, k2: int) -> bool:
    """
    pre: 0 <= k0 <= 2 and 0 <= k1 <= 2 and 0 <= k2 <= 2
    post: _
    """
    return verdict(ack_wait(k0, k1, k2))


def h_ack_wait_reach(k0: int, k1: int, k2: int) -> bool:
    """
    pre: 0 <= k0 <= 2 and 0 <= k1 <= 2 and 0 <= k2 <= 2
    post: _
    """
    return reached(ack_wait(k0, k1, k2))
