"""C10: dictionary / JSON-hook round trips and the from_json version gate, over ctypes shadows.

kinds (shard "kind"):
  allkinds  MDF_VALIDATOR_A (one field of every kind): every scalar symbolic, arrays symbolic at two positions
  perclass  one class of core_defs / tests' test_defs (shard "cls"): its first integer, float and string scalar (and the first
            element of its first int array) symbolic, everything else filled from the repository's from_random()
  gate      Message.from_json with a symbolic header.version against the local type_hash
symbolic: ints over the whole range of their field, doubles over all bit patterns, strings <= 3 characters (ASCII, no NUL)
"""
import math
import random
import sys

sys.path.insert(0, "/repo/tests")
import test_msg_defs.test_defs as TD  # noqa: E402
import pyrtma.message as MSG  # noqa: E402
import pyrtma.message_base as MB  # noqa: E402
from pyrtma import core_defs as cd  # noqa: E402
from pyrtma import validators as V  # noqa: E402
from pyrtma.header import MessageHeader  # noqa: E402
from pyrtma.exceptions import InvalidMessageDefinition  # noqa: E402
from engine import shadow as SH  # noqa: E402
from engine import cliworld as CW  # noqa: E402
from engine import standins  # noqa: E402
from harness.common import sh, set_shard, verdict, reached  # noqa: F401,E402

import ctypes  # noqa: E402

SHADOW = CW.SHADOW


def cls_by_name(name):
    for mod in (cd, TD):
        c = getattr(mod, name, None)
        if c is not None:
            return c
    if name == "MessageHeader":
        return MessageHeader
    raise KeyError(name)


def twin(real):
    return SH.shadow_of(real) if SHADOW else real


def store(m):
    if SHADOW:
        with SH.NoTracing():
            return m._shadow_store()
    return bytes(m)


def same(a, b):
    if not SHADOW:
        return a == b
    d = SH.store_diff(a, b)
    if d is None:
        return False
    for x, y in d:
        if isinstance(x, float) and isinstance(y, float):
            # byte-for-byte: NaN stays NaN, the sign of zero is kept
            if x != x or y != y:
                if not (x != x and y != y):
                    return False
            elif x != y or math.copysign(1.0, x) != math.copysign(1.0, y):
                return False
        elif not SH.store_eq(x, y):
            return False
    return True


def json_layer(o):
    """stands for json.dumps(..., cls=RTMAJSONEncoder) followed by json.loads: a structural copy that calls the encoder
    hook exactly where the json module would (on objects that are not JSON-native)"""
    enc = MB.RTMAJSONEncoder()
    if isinstance(o, dict):
        return {k: json_layer(v) for k, v in o.items()}
    if isinstance(o, (list, tuple)):
        return [json_layer(v) for v in o]
    if o is None or isinstance(o, (bool, int, float, str)):
        return o
    return json_layer(enc.default(o))


def roundtrip(m, via_json):
    d = m.to_dict()
    if via_json:
        d = json_layer(d)
    return type(m).from_dict(d)


def assign(m, name, v):
    if SHADOW:
        type(m).__dict__[name].__set__(m, v)
    else:
        setattr(m, name, v)


def scalar_fields(real):
    ints, floats, strs, iarrs = [], [], [], []
    for p, ft in SH.all_fields(real):
        if not p.startswith("_"):
            continue
        n = p[1:]
        if isinstance(ft, type) and issubclass(ft, ctypes.Array):
            if ft._type_ is ctypes.c_char:
                strs.append((n, ft._length_))
            elif ft._type_ in SH.INT_TYPES:
                iarrs.append((n, ft._type_, ft._length_))
        elif ft in SH.INT_TYPES:
            ints.append((n, ft))
        elif ft in SH.FLOAT_TYPES:
            floats.append((n, ft))
    return ints, floats, strs, iarrs


def fill_random(real, seed):
    rnd = random.Random(seed)
    random.seed(rnd.random())
    r = real.from_random()
    if not SHADOW:
        return r
    return twin(real).from_dict(r.to_dict())


def perclass(i0, f0, s0, a0):
    real = cls_by_name(sh("cls"))
    ints, floats, strs, iarrs = scalar_fields(real)
    with SH.NoTracing():
        m = fill_random(real, sh("seed", 1))
    # clear string tails left by from_random (a NUL inside a random string): known finding C10-char-tail is about those
    used = 0
    if ints:
        n, ft = ints[0]
        bits, signed = SH.INT_TYPES[ft]
        lo, hi = SH.int_range(bits, signed)
        if not (lo <= i0 <= hi):
            return True, "out of this field's range"
        assign(m, n, i0)
        used += 1
    elif i0 != 0:
        return True, "unused"
    if floats:
        n, ft = floats[0]
        if ft is ctypes.c_float and math.isinf(SH.round_f32(f0)):
            return True, "not representable"
        if ft is ctypes.c_double and math.isinf(f0):
            return True, "not representable"
        assign(m, n, f0)
    if strs:
        n, ln = strs[0]
        if len(s0) > ln - 1 or (ln == 1):
            return True, "too long"
        # start from a zeroed char array: bytes behind the terminating NUL are the subject of known finding C10-char-tail
        if SHADOW:
            m.__dict__["$" + n] = b"\x00" * ln
        else:
            ctypes.memset(ctypes.addressof(m) + getattr(type(m), "_" + n).offset, 0, ln)
        assign(m, n, s0)
    if iarrs:
        n, et, ln = iarrs[0]
        bits, signed = SH.INT_TYPES[et]
        lo, hi = SH.int_range(bits, signed)
        if not (lo <= a0 <= hi):
            return True, "out of range"
        arr = type(m).__dict__[n].__get__(m, type(m)) if SHADOW else getattr(m, n)
        arr[ln - 1] = a0
    elif a0 != 0:
        return True, "unused"
    before = store(m)
    for via_json in (False, True):
        try:
            m2 = roundtrip(m, via_json)
        except Exception as e:
            return False, "%s round trip raised %s: %s" % ("JSON-hook" if via_json else "dict", type(e).__name__, e)
        if not same(before, store(m2)):
            return False, "%s round trip of %s is not the identity" % ("JSON-hook" if via_json else "dict", real.__name__)
        if not same(before, store(m)):
            return False, "round trip modified its source"
    return True, ""


def allkinds(i8, i16, i32, i64, u8, u16, u32, u64, by, f, d, s, c, e1, e2, pos):
    real = TD.VALIDATOR_STRUCT      # one field of every scalar and array kind (nested structs: the per-class obligation)
    if math.isinf(d) or math.isinf(SH.round_f32(f)):
        return True, "not representable in the field (refused by validation: C09)"
    m = twin(real)()
    for n, v in (("int8", i8), ("int16", i16), ("int32", i32), ("int64", i64), ("uint8", u8), ("uint16", u16), ("uint32", u32),
                 ("uint64", u64), ("byte", by), ("float", f), ("double", d), ("string", s), ("char", c)):
        assign(m, n, v)
    get = (lambda n: type(m).__dict__[n].__get__(m, type(m))) if SHADOW else (lambda n: getattr(m, n))
    for n, v in (("int8_arr", i8), ("int16_arr", i16), ("int32_arr", i32), ("int64_arr", i64), ("uint8_arr", u8),
                 ("uint16_arr", u16), ("uint32_arr", u32), ("uint64_arr", u64), ("byte_arr", by)):
        a = get(n)
        a[pos] = v
    get("double_arr")[pos] = d
    if sh("only") != "float":       # the float32 scalar shard leaves the array alone (z3 FP conversions are slow)
        get("float_arr")[3 - pos] = f
    before = store(m)
    for via_json in (False, True):
        try:
            m2 = roundtrip(m, via_json)
        except Exception as e:
            return False, "%s round trip raised %s: %s" % ("JSON-hook" if via_json else "dict", type(e).__name__, e)
        if not same(before, store(m2)):
            return False, "%s round trip is not the identity" % ("JSON-hook" if via_json else "dict")
    return True, ""


class JsonShim:
    doc = None

    @staticmethod
    def loads(s):
        return JsonShim.doc

    dumps = None


def gate(version, msg_type, pid, first=None):
    """Message.from_json refuses header-plus-data JSON whose non-zero version differs from the local hash - also when an
    earlier document of the same type (version `first`: in sync, legacy 0, or itself refused) was decoded before it in this
    process: the gate is per document, not per type"""
    D = cd.MDF_MODULE_READY
    hdr_cls = twin(MessageHeader)
    old = (MSG.json, MSG.get_header_cls, MSG._msg_defs)
    MSG.json = JsonShim
    MSG.get_header_cls = lambda *a: hdr_cls
    defs = [(D.type_id, twin(D)), (cd.MDF_CONNECT_V2.type_id, twin(cd.MDF_CONNECT_V2))]
    MSG._msg_defs = standins.LinearDict(None, defs) if SHADOW else dict(defs)

    def once(version, msg_type, pid):
        h = hdr_cls()
        hd = h.to_dict()
        hd["msg_type"] = msg_type
        hd["reserved"] = version
        hd["num_data_bytes"] = 4
        JsonShim.doc = {"header": hd, "data": {"pid": pid}}
        exc = None
        try:
            m = MSG.Message.from_json("{...}")
        except InvalidMessageDefinition as e:
            exc = e
        except MSG.UnknownMessageType:
            return (msg_type != D.type_id and msg_type != cd.MDF_CONNECT_V2.type_id), "UnknownMessageType for a defined type"
        except MB.JSONDecodingError:
            # data for another class: only when the type is CONNECT_V2 (other fields)
            return msg_type == cd.MDF_CONNECT_V2.type_id, "decoding error for matching data"
        if msg_type != D.type_id:
            return True, ""
        must_refuse = version != 0 and version != D.type_hash
        if must_refuse != (exc is not None):
            return False, "version %s: refused=%s" % ("differs" if must_refuse else "matches or is 0", exc is not None)
        if exc is None:
            if not (m.header._reserved == version and m.data._pid == pid and m.header._msg_type == msg_type):
                return False, "decoded message differs from the JSON"
        return True, ""

    try:
        if first is not None:
            ok, why = once(first, D.type_id, 7)
            if not ok:
                return False, "first document: " + why
        ok, why = once(version, msg_type, pid)
        if not ok and first is not None:
            why = "second document of the process: " + why
        return ok, why
    finally:
        MSG.json, MSG.get_header_cls, MSG._msg_defs = old


# ---------------------------------------------------------------- known finding witness (real classes, real json)
def kf_char_tail():
    """a string field overwritten by a shorter one (or holding an interior NUL) keeps bytes behind its terminating NUL;
    to_dict/from_dict and to_json/from_json drop them: returns True iff the round trip is byte-identical"""
    m = cd.MDF_CLIENT_SET_NAME()
    m.name = "longer-name"
    m.name = "x"
    ok1 = bytes(cd.MDF_CLIENT_SET_NAME.from_dict(m.to_dict())) == bytes(m) and bytes(cd.MDF_CLIENT_SET_NAME.from_json(m.to_json())) == bytes(m)
    m2 = cd.MDF_CLIENT_SET_NAME()
    m2.name = "a\x00b"
    ok2 = bytes(cd.MDF_CLIENT_SET_NAME.from_dict(m2.to_dict())) == bytes(m2)
    return ok1 and ok2


# ---------------------------------------------------------------- entry points
def h_perclass(i0: int, f0: float, s0: str, a0: int) -> bool:
    """
    pre: len(s0) <= 3 and s0.isascii() and chr(0) not in s0
    post: _
    """
    return verdict(perclass(i0, f0, s0, a0))


def h_perclass_reach(i0: int, f0: float, s0: str, a0: int) -> bool:
    """
    pre: len(s0) <= 3 and s0.isascii() and chr(0) not in s0
    post: _
    """
    return reached(perclass(i0, f0, s0, a0))


def _pre_all(i8, i16, i32, i64, u8, u16, u32, u64, by, f, d, s, c, e1, e2):
    """one group of fields is symbolic per shard (ints | floats | strs); the others are pinned"""
    g = sh("group", "ints")
    if g == "ints":
        only = sh("only")      # one integer kind symbolic per shard (scalar + its array element); the others pinned to 0
        vals = {"int8": i8, "int16": i16, "int32": i32, "int64": i64, "uint8": u8, "uint16": u16, "uint32": u32, "uint64": u64, "byte": by}
        for k, v in vals.items():
            if only is not None and k != only and v != 0:
                return False
        if not (-2**7 <= i8 < 2**7 and -2**15 <= i16 < 2**15 and -2**31 <= i32 < 2**31 and -2**63 <= i64 < 2**63
                and 0 <= u8 < 2**8 and 0 <= u16 < 2**16 and 0 <= u32 < 2**32 and 0 <= u64 < 2**64 and 0 <= by < 256
                and e1 == 0 and e2 == 0):
            return False
    elif not (i8 == 0 and i16 == 0 and i32 == 0 and i64 == 0 and u8 == 0 and u16 == 0 and u32 == 0 and u64 == 0 and by == 0
              and e1 == 0 and e2 == 0):
        return False
    if g != "floats" and not (f == 0.0 and d == 0.0):
        return False
    if g == "floats":
        if sh("only") == "float" and d != 0.0:
            return False
        if sh("only") == "double" and f != 0.0:
            return False
    if g == "strs":
        if not (len(s) <= 2 and s.isascii() and chr(0) not in s and len(c) == 1 and c.isascii()):
            return False
    elif not (s == "" and c == "c"):
        return False
    return True


def h_allkinds(i8: int, i16: int, i32: int, i64: int, u8: int, u16: int, u32: int, u64: int, by: int, f: float, d: float,
               s: str, c: str, e1: int, e2: int) -> bool:
    """
    pre: _pre_all(i8, i16, i32, i64, u8, u16, u32, u64, by, f, d, s, c, e1, e2)
    post: _
    """
    return verdict(allkinds(i8, i16, i32, i64, u8, u16, u32, u64, by, f, d, s, c, e1, e2, sh("pos", 0)))


def h_allkinds_reach(i8: int, i16: int, i32: int, i64: int, u8: int, u16: int, u32: int, u64: int, by: int, f: float, d: float,
                     s: str, c: str, e1: int, e2: int) -> bool:
    """
    pre: _pre_all(i8, i16, i32, i64, u8, u16, u32, u64, by, f, d, s, c, e1, e2)
    post: _
    """
    return reached(allkinds(i8, i16, i32, i64, u8, u16, u32, u64, by, f, d, s, c, e1, e2, sh("pos", 0)))


def h_gate(version: int, msg_type: int, pid: int) -> bool:
    """
    pre: 0 <= version < 2**32 and -2**31 <= msg_type < 2**31 and -2**31 <= pid < 2**31
    post: _
    """
    return verdict(gate(version, msg_type, pid))


def h_gate_reach(version: int, msg_type: int, pid: int) -> bool:
    """
    pre: 0 <= version < 2**32 and -2**31 <= msg_type < 2**31 and -2**31 <= pid < 2**31
    post: _
    """
    return reached(gate(version, msg_type, pid))


def h_gate2(first: int, version: int, msg_type: int, pid: int) -> bool:
    """
    pre: 0 <= first < 2**32 and 0 <= version < 2**32 and -2**31 <= msg_type < 2**31 and -2**31 <= pid < 2**31
    post: _
    """
    return verdict(gate(version, msg_type, pid, first))


def h_gate2_reach(first: int, version: int, msg_type: int, pid: int) -> bool:
    """
    pre: 0 <= first < 2**32 and 0 <= version < 2**32 and -2**31 <= msg_type < 2**31 and -2**31 <= pid < 2**31
    post: _
    """
    return reached(gate(version, msg_type, pid, first))
