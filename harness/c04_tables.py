"""C04 (type tables): every native type name the parser accepts is known to every back end with the same width, signedness and
int/float/char kind.  The tables are read from the imported modules on every run (the parser's private ctypes table is
recovered from the AST of Parser.get_ctype_cls); C widths are MEASURED by compiling a sizeof/signedness probe with gcc.
The question "is there a native name on which two tables disagree, or that the parser accepts and a back end lacks" is
put to z3 over an enumerated sort; unsat is the verdict, a model names the offending type.

usage: python -m harness.c04_tables '<shard json>'  ->  RESULT {...}
"""
import ast
import ctypes
import inspect
import json
import os
import subprocess
import sys
import tempfile
import textwrap
import time

import pyrtma.parser as P
import pyrtma.compilers.python as PYC
import pyrtma.compilers.c99 as CC
import pyrtma.compilers.javascript as JSC
import pyrtma.compilers.matlab as MLC

FMT_KIND = {"c": ("char", 1, True), "b": ("int", 1, True), "B": ("int", 1, False), "h": ("int", 2, True), "H": ("int", 2, False),
            "i": ("int", 4, True), "I": ("int", 4, False), "q": ("int", 8, True), "Q": ("int", 8, False), "f": ("float", 4, True),
            "d": ("float", 8, True)}
PY_DESC = {"Char": "c", "Byte": "B", "Uint8": "B", "Int8": "b", "Int16": "h", "Uint16": "H", "Int32": "i", "Uint32": "I", "Int64": "q",
           "Uint64": "Q", "Float": "f", "Double": "d"}
ML = {"int8": "b", "uint8": "B", "int16": "h", "uint16": "H", "int32": "i", "uint32": "I", "int64": "q", "uint64": "Q", "single": "f",
      "double": "d"}


def parser_ctypes_table():
    src = textwrap.dedent(inspect.getsource(P.Parser.get_ctype_cls))
    tree = ast.parse(src)
    for node in ast.walk(tree):
        if isinstance(node, ast.Assign) and isinstance(node.value, ast.Dict) and getattr(node.targets[0], "id", None) == "type_map":
            return eval(compile(ast.Expression(node.value), "<type_map>", "eval"), {"ctypes": ctypes})
    raise RuntimeError("Parser.get_ctype_cls no longer contains a literal type_map")


def ctype_attr(t):
    code = t._type_
    size = ctypes.sizeof(t)
    if code in "fd":
        return ("float", size, True)
    if code == "c":
        return ("char", 1, True)
    return ("int", size, code in "bhilq")


def measure_c(ctypes_names):
    """(kind, width, signed) of each C type name, measured with the installed gcc"""
    names = sorted(set(ctypes_names))
    body = []
    for i, n in enumerate(names):
        body.append('printf("%%d %%zu %%d %%d\\n", %d, sizeof(%s), ((%s)-1) < (%s)0, ((%s)0.5) != (%s)0);' % (i, n, n, n, n, n))
    src = "#include <stdio.h>\n#include <stdint.h>\nint main(){\n" + "\n".join(body) + "\nreturn 0;}\n"
    with tempfile.TemporaryDirectory() as d:
        with open(os.path.join(d, "t.c"), "w") as f:
            f.write(src)
        subprocess.run(["gcc", "-w", "-o", os.path.join(d, "t"), os.path.join(d, "t.c")], check=True, capture_output=True)
        out = subprocess.run([os.path.join(d, "t")], check=True, capture_output=True, text=True).stdout
    res = {}
    for line in out.splitlines():
        i, size, signed, isfloat = [int(x) for x in line.split()]
        n = names[i]
        kind = "float" if isfloat else ("char" if n == "char" else "int")
        res[n] = (kind, size, bool(signed) if kind == "int" else True)
    return res


def tables():
    names = list(P.supported_types)
    T = {}
    T["parser"] = {n: FMT_KIND[t.format][:1] + (t.size,) + FMT_KIND[t.format][2:] for n, t in P.supported_types.items()}
    T["parser"] = {n: (FMT_KIND[t.format][0], t.size, FMT_KIND[t.format][2]) for n, t in P.supported_types.items()}
    pct = parser_ctypes_table()
    T["parser_ctypes"] = {n: ctype_attr(pct[P.supported_types[n].name]) for n in names if P.supported_types[n].name in pct}
    T["python_ctypes"] = {n: ctype_attr(eval(v, {"ctypes": ctypes})) for n, v in PYC.type_map.items()}
    T["python_descriptor"] = {n: FMT_KIND[PY_DESC[v]] for n, v in PYC.desctype_map.items()}
    cm = measure_c(CC.type_map.values())
    T["c"] = {n: cm[v] for n, v in CC.type_map.items()}
    T["matlab"] = {n: FMT_KIND[ML[v]] for n, v in MLC.type_map.items()}
    T["javascript"] = {n: None for n in JSC.type_map if n != "string"}
    return names, T


def norm(lang, attr):
    """MATLAB has no char type (char -> int8); unsigned char/byte carry no 'char' kind anywhere"""
    kind, size, signed = attr
    if kind == "char":
        kind, signed = "int", True
    return (kind, size, signed)


def main():
    import z3
    t0 = time.time()
    names, T = tables()
    Name, consts = z3.EnumSort("NativeName", [n.replace(" ", "_") for n in names])
    x = z3.Const("x", Name)
    s = z3.Solver()
    langs = list(T)
    bad = []
    facts = 0
    for i, n in enumerate(names):
        ref = norm("parser", T["parser"][n])
        for lang in langs:
            if n not in T[lang]:
                bad.append(z3.And(x == consts[i], z3.BoolVal(True)))
                facts += 1
                continue
            a = T[lang][n]
            if a is None:
                facts += 1
                continue
            facts += 1
            if norm(lang, a) != ref:
                bad.append(x == consts[i])
    # the query: some native name is missing somewhere or described differently somewhere
    s.add(z3.Or(*bad) if bad else z3.BoolVal(False))
    r = s.check()
    res = {"paths": facts, "solver_calls": 1, "solver_s": round(time.time() - t0, 3), "wall_s": time.time() - t0}
    if str(r) == "unsat":
        res.update(state="CONFIRMED", message="unsat: %d native type names x %d tables agree on kind, width and signedness (C widths measured with gcc)" % (len(names), len(langs)))
    else:
        m = s.model()
        nm = str(m[x]).replace("_", " ")
        nm = nm if nm in names else str(m[x])
        detail = {lang: (T[lang].get(nm, "MISSING") if T[lang].get(nm, "MISSING") is not None else "present") for lang in langs}
        res.update(state="POST_FAIL", replayed_real=True, call=nm,
                   message="native type %r is not described alike everywhere: %s" % (nm, json.dumps(detail, default=str)))
    print("RESULT " + json.dumps(res))


if __name__ == "__main__":
    try:
        main()
    except Exception as e:
        import traceback
        print("RESULT " + json.dumps({"state": "HARNESS_ERROR", "message": "%s: %s" % (type(e).__name__, e), "traceback": traceback.format_exc()[-1500:]}))
