"""C19 / C07 (connection churn): a module connects and is acknowledged, leaves, and ANOTHER module connects on a new TCP
connection that the OS gives the same descriptor number; every acknowledgement the newcomer gets - and every logger copy -
must be addressed to the newcomer.  (A bounded history from the initial state: whatever the manager keeps per connection
outside its module table only shows this way.)

shard: leave = "disc" (DISCONNECT) | "fin" (orderly close seen by the read side)
symbolic: both module ids (1..99, may coincide), the type the newcomer subscribes to
"""
from engine import mgrworld as W
from harness.common import sh, set_shard, verdict, reached  # noqa: F401
from pyrtma.validators import disable_message_validation

M = W.M
cd = W.cd
ACK = cd.MT_ACKNOWLEDGE


def acks(conn):
    return [hd for hd, p in conn.frames() if hd["msg_type"] == ACK]


def scenario(a, b, t):
    mm, mods = W.build(2)
    X, L = mods
    L.connected = True
    L.mod_id = 60
    W.make_logger(mm, L)
    mm.wlist = [X.conn, L.conn]
    with disable_message_validation():
        # 1. X connects with id a, then subscribes (two acknowledgements)
        W.set_incoming(mm, dict(msg_type=cd.MT_CONNECT, src_mod_id=a, num_data_bytes=4), ("MDF_CONNECT", dict(logger_status=0, daemon_status=0)))
        mm.process_message(X)
        W.set_incoming(mm, dict(msg_type=cd.MT_SUBSCRIBE, src_mod_id=a, num_data_bytes=4), ("MDF_SUBSCRIBE", dict(msg_type=t)))
        mm.process_message(X)
        if len(acks(X.conn)) != 2 or not X.connected:
            return False, "the first module was not connected and acknowledged twice"
        # 2. X leaves
        if sh("leave", "disc") == "disc":
            W.set_incoming(mm, dict(msg_type=cd.MT_DISCONNECT, src_mod_id=a, num_data_bytes=0))
            mm.process_message(X)
        else:
            X.conn.recv_script = [("short", 0)]
            try:
                mm.read_message(X.conn)
            except ConnectionError:
                mm.disconnect_module(X)
        if W._contains(list(mm.modules.values()), X):
            return False, "the first module is still registered after leaving"
        # 3. a new connection arrives on the descriptor that was just closed; its module asks for id b
        c = W.FakeConn(X.conn.i)
        N = M.Module(uid=50, conn=c, address=("10.0.0.7", 4000), header_cls=mm.header_cls)
        if W.SHADOW:
            N.subs = W.LinearSet()
        mm.modules[c] = N
        mm.wlist = [c, L.conn]
        W.set_incoming(mm, dict(msg_type=cd.MT_CONNECT, src_mod_id=b, num_data_bytes=4), ("MDF_CONNECT", dict(logger_status=0, daemon_status=0)))
        mm.process_message(N)
        W.set_incoming(mm, dict(msg_type=cd.MT_SUBSCRIBE, src_mod_id=b, num_data_bytes=4), ("MDF_SUBSCRIBE", dict(msg_type=t)))
        mm.process_message(N)
    if not (N.connected and N.mod_id == b):
        return False, "the newcomer was not connected under the id it asked for"
    na = acks(c)
    if len(na) != 2:
        return False, "the newcomer got %d acknowledgements for its two control frames" % len(na)
    for hd in na:
        if hd["dest_mod_id"] != b or hd["src_mod_id"] != 0 or hd["num_data_bytes"] != 0:
            return False, "an acknowledgement delivered to the newcomer is not addressed to it"
    la = acks(L.conn)
    if len(la) != 4:
        return False, "the logger got %d copies of the four acknowledgements" % len(la)
    want = [a, a, b, b]
    for hd, w in zip(la, want):
        if hd["dest_mod_id"] != w:
            return False, "a logger copy of an acknowledgement names another module than the one acknowledged"
    for j, hd in enumerate(na):
        if hd["msg_count"] != j + 1:
            return False, "the newcomer's frames are not numbered from one"
    return True, ""


def churn(a: int, b: int, t: int) -> bool:
    """
    pre: 1 <= a <= 99 and 1 <= b <= 99 and a != 60 and b != 60 and -2**31 <= t < 2**31 - 1
    post: _
    """
    return verdict(scenario(a, b, t))


def churn_reach(a: int, b: int, t: int) -> bool:
    """
    pre: 1 <= a <= 99 and 1 <= b <= 99 and a != 60 and b != 60 and -2**31 <= t < 2**31 - 1
    post: _
    """
    return reached(scenario(a, b, t))
