"""Round harness: executes the real MessageManager.run() for ONE select round in which two client connections are ready at
the same time, and compares what every module received with the sequential semantics of the service order the manager chose.

Stubs: select.select (scripted: read poll -> the two ready sockets; write poll -> every socket it is ASKED about that the
harness marked writable; the next read poll clears _keep_running), random.shuffle (keeps or reverses the ready list, by shard),
time.perf_counter (frozen, so the periodic senders stay quiet; they are covered by their own obligations).

shard: f1, f2 = frame kind of ready client 1 / 2: "sub" | "unsub" | "pause" | "resume" | "suball" | "data" | "disc"
       s1, s2 = their subscription state before the round: 0 none | 1 subscribed to t | 2 subscribed to ALL
       rev    = the shuffle reverses the ready list
       f2dead = 1: client 2's connection dies on its next send (it is removed while client 1's frame is delivered)
       accept = 1: a new TCP connection is waiting on the listening socket in the same round (the loop must accept it, register
                   it under a fresh uid and still service the ready clients)
symbolic: the type t (any int32 that is neither a control type nor the ALL sentinel), payload size, destination 0
"""
from engine import mgrworld as W
from harness.common import sh, set_shard, verdict, reached  # noqa: F401
from pyrtma.validators import disable_message_validation

M = W.M
cd = W.cd
ALL = W.ALL
CTRL = {"sub": (cd.MT_SUBSCRIBE, "MDF_SUBSCRIBE"), "unsub": (cd.MT_UNSUBSCRIBE, "MDF_UNSUBSCRIBE"),
        "pause": (cd.MT_PAUSE_SUBSCRIPTION, "MDF_PAUSE_SUBSCRIPTION"), "resume": (cd.MT_RESUME_SUBSCRIPTION, "MDF_RESUME_SUBSCRIPTION")}
CTRL_IDS = (cd.MT_CONNECT, cd.MT_CONNECT_V2, cd.MT_DISCONNECT, cd.MT_SUBSCRIBE, cd.MT_UNSUBSCRIBE, cd.MT_PAUSE_SUBSCRIPTION,
            cd.MT_RESUME_SUBSCRIPTION, cd.MT_CLIENT_SET_NAME, cd.MT_MODULE_READY, cd.MT_ACKNOWLEDGE, cd.MT_FAILED_MESSAGE,
            cd.MT_CLIENT_CLOSED, cd.MT_CLIENT_INFO)


class RoundSelect:
    def __init__(self, mm, ready, writable):
        self.mm, self.ready, self.writable = mm, ready, writable
        self.reads = 0

    def select(self, r, w, x, t=None):
        r, w = list(r), list(w)
        if r:                                   # read poll of a round
            self.reads += 1
            if self.reads == 1:
                return (([self.mm.listen_socket] if sh("accept", 0) else []) + [c for c in r if W._contains(self.ready, c)], [], [])
            self.mm._keep_running = False       # second round: stop the loop
            return ([], [], [])
        return ([], [c for c in w if W._contains(self.writable, c)], [])   # write poll / blocking logger wait


class Shuffle:
    def __init__(self, rev):
        self.rev = rev

    def shuffle(self, xs):
        if self.rev:
            xs.reverse()


class FrozenTime:
    def perf_counter(self):
        return 1000.0

    def time(self):
        return 1000.0


class RoundConn(W.FakeConn):
    """a connection with one incoming frame staged; the header read loads it into the manager's receive buffers"""
    mm = None
    incoming = None

    def recv_into(self, buf, n=0, flags=0):
        if self.recv_calls == 0 and self.incoming is not None:
            W.set_incoming(self.mm, self.incoming[0], self.incoming[1])
        return W.FakeConn.recv_into(self, buf, n, flags)


def frame_for(kind, t, nb, src_id, tag):
    if kind == "data":
        return (dict(msg_type=t, src_mod_id=src_id, dest_mod_id=0, dest_host_id=0, num_data_bytes=nb, reserved=tag), None)
    if kind == "disc":
        return (dict(msg_type=cd.MT_DISCONNECT, src_mod_id=src_id, num_data_bytes=0, reserved=tag), None)
    if kind == "suball":
        return (dict(msg_type=cd.MT_SUBSCRIBE, src_mod_id=src_id, num_data_bytes=4, reserved=tag), ("MDF_SUBSCRIBE", dict(msg_type=ALL)))
    tid, name = CTRL[kind]
    return (dict(msg_type=tid, src_mod_id=src_id, num_data_bytes=4, reserved=tag), (name, dict(msg_type=t)))


def scenario(t, nb):
    f = [sh("f1", "sub"), sh("f2", "data")]
    s = [sh("s1", 0), sh("s2", 0)]
    rev = bool(sh("rev", 0))
    mm, mods = W.build(0)
    H = mm.header_cls
    conns = []
    clients = []
    for k in range(3):                       # client 1, client 2, an old subscriber O
        c = RoundConn(k)
        c.mm = mm
        m = M.Module(uid=k + 1, conn=c, address=("10.0.0.%d" % (k + 1), 5000 + k), header_cls=H, connected=True, mod_id=20 + k)
        if W.SHADOW:
            m.subs = W.LinearSet()
        mm.modules[c] = m
        conns.append(c)
        clients.append(m)
    for k in range(2):
        if s[k] == 1:
            W.subscribe(mm, clients[k], t)
        elif s[k] == 2:
            W.subscribe(mm, clients[k], ALL)
        conns[k].incoming = frame_for(f[k], t, nb, 20 + k, 100 + k)
    mm._uid = 3         # three connections have been accepted so far (uids 1..3 above)
    W.subscribe(mm, clients[2], t)
    if sh("f2dead", 0):
        conns[1].fail_after = 0
    newconn = None
    if sh("accept", 0):
        newconn = RoundConn(9)
        newconn.setsockopt = lambda *a, **k: None
        mm.listen_socket.accept = lambda: (newconn, ("10.0.0.9", 4321))
    sel = RoundSelect(mm, [conns[0], conns[1]], list(conns))
    old = (M.select, M.random, M.time)
    M.select, M.random, M.time = sel, Shuffle(rev), FrozenTime()
    mm.t_last_message_count = mm.traffic_start = mm.last_client_info = 1000.0
    try:
        try:
            mm.run()
        except Exception as e:
            return False, "run() raised %s: %s" % (type(e).__name__, e)
    finally:
        M.select, M.random, M.time = old
    # ---- sequential reference semantics in the service order the manager used
    order = [1, 0] if rev else [0, 1]
    state = [s[0], s[1], 1]                  # 0 none, 1 t, 2 ALL ; index 2 = O
    alive = [True, True, True]
    dead2 = bool(sh("f2dead", 0))
    expect = [[], [], []]                    # per module: tags of the data frames it must receive, in order

    def notice():
        # a manager-originated notice (CLIENT_CLOSED / FAILED_MESSAGE) goes to every ALL subscriber: a dead one is discovered by it
        if dead2 and alive[1] and state[1] == 2:
            alive[1] = False
            state[1] = 0

    for k in order:
        if not alive[k]:
            continue                         # removed while an earlier socket was serviced: its frame is skipped
        kind = f[k]
        if kind == "data":
            for j in range(3):
                if alive[j] and state[j] != 0:
                    if j == 1 and dead2:
                        alive[1] = False     # discovered dead by this very delivery
                        state[1] = 0
                    else:
                        expect[j].append(100 + k)
        elif kind == "disc":
            alive[k] = False
            state[k] = 0
            notice()
        else:
            # a control frame: the acknowledgement is written to the sender; a dead connection is discovered there
            if kind == "sub" or kind == "resume":
                if state[k] != 2:
                    state[k] = 1
            elif kind in ("unsub", "pause"):
                if state[k] != 2:
                    state[k] = 0
            elif kind == "suball":
                state[k] = 2
            if k == 1 and dead2:
                alive[1] = False
                state[1] = 0
    for j in range(3):
        c = conns[j]
        if j == 1 and dead2:
            continue
        if not alive[j] and f[j] if j < 2 else False:
            pass
        try:
            frames = c.frames()
        except AssertionError as e:
            return False, "module %d: %s" % (j, e)
        got = [hd["reserved"] for hd, p in frames if hd["msg_type"] == t and hd["src_mod_id"] != 0 and p[2] is None]
        if got != expect[j]:
            return False, "module %d received data frames %s, the service order implies %s" % (j, got, expect[j])
        for hd, p in frames:
            if hd["msg_type"] == t and hd["src_mod_id"] != 0 and p[2] is None:
                if not (hd["num_data_bytes"] == nb and W.plen(p) == nb and hd["dest_mod_id"] == 0):
                    return False, "forwarded frame altered"
    for j in range(3):
        if W._contains(list(mm.modules.values()), clients[j]) != alive[j]:
            return False, "module %d registered=%s, expected %s" % (j, not alive[j], alive[j])
    if newconn is not None:
        nm = mm.modules.get(newconn)
        if nm is None or nm.conn is not newconn:
            return False, "the waiting connection was not accepted into the module table"
        if nm.connected or nm.mod_id != 0 or len(nm.subs) != 0 or nm in mm.logger_modules:
            return False, "a freshly accepted connection must be an unconnected module without id or subscriptions"
        for m in mm.modules.values():
            if m is not nm and m.uid == nm.uid:
                return False, "the accepted connection got a uid another module holds"
        if len(newconn.calls) != 0:     # (run()'s own `finally` closes every socket when the loop ends: closed says nothing here)
            return False, "something was written to a connection that has not said anything yet"
    return True, ""


def _pre(t, nb):
    return t not in CTRL_IDS


def rnd(t: int, nb: int) -> bool:
    """
    pre: -2**31 <= t < 2**31 - 1 and 0 <= nb <= 65535
    pre: _pre(t, nb)
    post: _
    """
    return verdict(scenario(t, nb))


def rnd_reach(t: int, nb: int) -> bool:
    """
    pre: -2**31 <= t < 2**31 - 1 and 0 <= nb <= 65535
    pre: _pre(t, nb)
    post: _
    """
    return reached(scenario(t, nb))
