"""Shared by harness modules: shard handling.

A harness module is imported once per worker process; the worker then calls set_shard(d) BETWEEN CrossHair
analyses (never during one), so a harness function is deterministic across CrossHair's re-executions.
"""
import json
import os

SHARD = json.loads(os.environ.get("VERIF_SHARD", "{}") or "{}")


def set_shard(d):
    SHARD.clear()
    SHARD.update(d)


def sh(key, default=None):
    return SHARD.get(key, default)
