"""Shared by harness modules: shard handling.

A harness module is imported once per worker process; the worker then calls set_shard(d) BETWEEN CrossHair
analyses (never during one), so a harness function is deterministic across CrossHair's re-executions.
"""
import json
import os

SHARD = json.loads(os.environ.get("VERIF_SHARD", "{}") or "{}")


def set_shard(d):
    SHARD.clear()
    SHARD.update(d)


def sh(key, default=None):
    return SHARD.get(key, default)


class PropertyViolated(AssertionError):
    """raised by a harness when its oracle fails, so that the reason travels in CrossHair's message"""


def verdict(res):
    ok, why = res[0], res[1]
    if not ok:
        raise PropertyViolated(why)
    return True


def reached(res):
    """reach twin: post-condition False exactly when the scenario ran to the end of its oracle with a passing verdict"""
    return not res[0]
