"""C04 / C15: bounded definition descriptors through the REAL parser handlers and the four REAL back ends.

A descriptor (shard "defs") is a short list of definitions in file order:
   ["alias", name, target]                     target: a native type name or an earlier definition
   ["struct" | "msg", name, [[fname, type, length|0], ...]]
   ["signal", name]
shard "imported" = k: the first k definitions come from an imported file (registered first, under another source file), which is
how an alias or struct of the importing file can refer to a struct/message defined elsewhere.
symbolic: the message ids (pairwise distinct, valid), the module id and host id values, a numeric constant.  They travel through
the emitted text as tokens (the formatting stub renders each distinct symbolic number as its own token), so agreement between
the language outputs is decided for every value at once.

The emitted text is read back by four small readers (one per language) into  {definition: [(field, type, length)], ids, hashes};
C04's oracle demands equality across languages and with the parser's model; C15's oracle demands that nothing but a ParserError
escapes and that every output only uses names it has already defined.
"""
import io
import pathlib
import re

import pyrtma.parser as P
import pyrtma.compilers.python as PYC
import pyrtma.compilers.c99 as CC
import pyrtma.compilers.javascript as JSC
import pyrtma.compilers.matlab as MLC
from engine.standins import NullLogger
from engine.shadow import NoTracing
from engine import realinit
from harness.common import sh, set_shard, verdict, reached  # noqa: F401


class Capture(io.StringIO):
    store = {}

    def __init__(self, path):
        super().__init__()
        self.path = str(path)

    def close(self):
        Capture.store[self.path] = self.getvalue()
        super().close()


def _open(path, mode="r", *a, **k):
    return Capture(path)


class NoSubprocess:
    @staticmethod
    def run(*a, **k):
        return None


import textwrap as _tw
import os as _os


def _dedent(t):
    """textwrap.dedent on the (concrete) template text, outside CrossHair's tracer: its regex interpreter is very slow"""
    with NoTracing():
        plain = type(t) is str
        if plain:
            return _tw.dedent(t)
    if _os.environ.get("VERIF_DEBUG_DEDENT"):
        for ln in t.split("\n"):
            with NoTracing():
                if type(ln) is not str:
                    import sys as _s
                    print("SYMBOLIC LINE", type(ln).__name__, file=_s.stderr)
            if not isinstance(ln, str) or True:
                pass
        lines = t.split("\n")
        with NoTracing():
            import sys as _s
            print("TYPES", [type(x).__name__ for x in lines], file=_s.stderr)
    return _tw.dedent(t)


class _TextwrapShim:
    dedent = staticmethod(_dedent)


P.textwrap = _TextwrapShim
for _m in (PYC, CC, JSC, MLC):
    _m.open = _open
    if hasattr(_m, "dedent"):
        _m.dedent = _dedent
PYC.subprocess = NoSubprocess
STUBS = ["open() in the four compiler modules -> in-memory capture", "subprocess.run (black formatter) -> no-op (re-formatting only)",
         "Parser.logger -> NullLogger; definitions are fed to the real handle_* methods as the dictionaries YAML would produce (YAML surface syntax outside)"]


def bare_parser(import_coredefs=False):
    p = realinit.parser(P, validate_alignment=True, auto_pad=True, import_coredefs=import_coredefs)
    p.current_file = pathlib.Path("/defs/user.yaml")
    p.root_path = pathlib.Path("/defs")
    p.clear()
    p.current_file = pathlib.Path("/defs/user.yaml")
    return p


def feed(p, defs, imported, ids, mid, hid, cval, consts=None):
    """register the definitions as parse_text would: per file, sections in the order constants, aliases, ids, structs, messages"""
    mi = 0
    if consts is None:
        consts = sh("consts", [])
    groups = [("/defs/inc/imported.yaml", defs[:imported]), ("/defs/user.yaml", defs[imported:])]
    for path, ds in groups:
        p.current_file = pathlib.Path(path)
        if path.endswith("user.yaml"):
            for cname, cexpr in consts:
                p.handle_expression(cname, cexpr)
            p.handle_expression("KONST", 5)     # constants are concrete (their texts are the subject); ids are symbolic
            p.handle_string("GREETING", "hello")
            p.handle_host_id("LOCAL_HOST", hid)
            p.handle_module_id("MY_MODULE", mid)
        for d in ds:
            if d[0] == "alias":
                p.handle_alias(d[1], d[2])
        for d in ds:
            if d[0] == "struct":
                p.handle_struct(d[1], {"fields": {f[0]: (f[1] + ("[%s]" % f[2] if f[2] else "")) for f in d[2]}})
        for d in ds:
            if d[0] == "msg":
                p.handle_message_def(d[1], {"id": ids[mi], "fields": {f[0]: (f[1] + ("[%s]" % f[2] if f[2] else "")) for f in d[2]}})
                mi += 1
            elif d[0] == "signal":
                p.handle_message_def(d[1], {"id": ids[mi], "fields": None})
                mi += 1


def emit(p):
    Capture.store = {}
    out = {}
    PYC.PyDefCompiler(p).generate(pathlib.Path("/out/defs.py"))
    out["py"] = Capture.store["/out/defs.py"]
    CC.CDefCompiler(p, filename="defs").generate(pathlib.Path("/out/defs.h"))
    out["c"] = Capture.store["/out/defs.h"]
    JSC.JSDefCompiler(p).generate(pathlib.Path("/out/defs.js"))
    out["js"] = Capture.store["/out/defs.js"]
    MLC.MatlabDefCompiler(p).generate(pathlib.Path("/out/defs.m"))
    out["m"] = Capture.store["/out/defs.m"]
    return out


# ---------------------------------------------------------------- width classes of native type names per language
WIDTH = {}
for _n, _t in P.supported_types.items():
    WIDTH[_n] = (_t.size, _t.format)
C_W = {"char": (1, "c"), "signed char": (1, "b"), "unsigned char": (1, "B"), "uint8_t": (1, "B"), "int8_t": (1, "b"), "int16_t": (2, "h"), "uint16_t": (2, "H"),
       "int32_t": (4, "i"), "uint32_t": (4, "I"), "int64_t": (8, "q"), "uint64_t": (8, "Q"), "float": (4, "f"), "double": (8, "d")}
PY_DESC = {"Char": (1, "c"), "Byte": (1, "B"), "Uint8": (1, "B"), "Int8": (1, "b"), "Int16": (2, "h"), "Uint16": (2, "H"), "Int32": (4, "i"),
           "Uint32": (4, "I"), "Int64": (8, "q"), "Uint64": (8, "Q"), "Float": (4, "f"), "Double": (8, "d")}
ML_W = {"int8": (1, "b"), "uint8": (1, "B"), "int16": (2, "h"), "uint16": (2, "H"), "int32": (4, "i"), "uint32": (4, "I"),
        "int64": (8, "q"), "uint64": (8, "Q"), "single": (4, "f"), "double": (8, "d")}


def kind(wf):
    """comparable class of an element type: (size, int/float/char/uint...) - MATLAB has no char type: char and int8 are one class there"""
    return wf


# ---------------------------------------------------------------- readers
def read_py(text):
    out = {"defs": {}, "ids": {}, "hash": {}, "order": []}
    cur = None
    for line in text.splitlines():
        m = re.match(r"class (MDF_)?(\w+)\(", line)
        if m:
            cur = m.group(2)
            out["defs"][cur] = []
            out["order"].append(("class", cur))
            continue
        m = re.match(r"MT_(\w+): int = (.+)$", line)
        if m:
            out["ids"][m.group(1)] = m.group(2)
        m = re.match(r"(\w+) = (\S+)$", line)
        if m and cur is None:
            out["order"].append(("alias", m.group(1), m.group(2)))
        if cur:
            m = re.match(r"\s+type_hash: ClassVar\[int\] = 0x(\w+)", line)
            if m:
                out["hash"][cur] = m.group(1).lower()
            m = re.match(r"\s+(\w+):(\w+)(\[(\w+)\])? = (\w+)\((.*)\)\s*$", line)
            if m and not m.group(1).startswith("type_"):
                name, desc, args = m.group(1), m.group(5), [a.strip() for a in m.group(6).split(",") if a.strip()]
                if desc in ("IntArray", "FloatArray", "StructArray"):
                    out["defs"][cur].append((name, args[0], args[1]))
                elif desc in ("String", "ByteArray"):
                    out["defs"][cur].append((name, "Char" if desc == "String" else "Byte", args[0]))
                elif desc == "Struct":
                    out["defs"][cur].append((name, args[0], "0"))
                else:
                    out["defs"][cur].append((name, desc, "0"))
    return out


def read_c(text):
    out = {"defs": {}, "ids": {}, "hash": {}, "order": []}
    fields = None
    for line in text.splitlines():
        if line.startswith("typedef struct {") and fields is None:
            fields = []
            continue
        m = re.match(r"typedef (.+) (\w+);$", line)
        if m and fields is None:
            out["order"].append(("alias", m.group(2), m.group(1)))
            continue
        if fields is not None:
            m = re.match(r"\} (MDF_)?(\w+);", line)
            if m:
                out["defs"][m.group(2)] = fields
                out["order"].append(("class", m.group(2)))
                fields = None
                continue
            m = re.match(r"\s+(.+?) (\w+)(\[(.+)\])?;$", line)
            if m:
                fields.append((m.group(2), m.group(1), m.group(4) or "0"))
        m = re.match(r"#define MT_(\w+)\s+(\S+)$", line)
        if m:
            out["ids"][m.group(1)] = m.group(2)
        m = re.match(r"#define HASH_(\w+)\s+0x(\w+)$", line)
        if m:
            out["hash"][m.group(1)] = m.group(2).lower()
        m = re.match(r"// (\w+) -> Signal", line)
        if m:
            out["defs"][m.group(1)] = []
    return out


def read_js(text):
    out = {"defs": {}, "ids": {}, "hash": {}, "order": []}
    cur = None
    for line in text.splitlines():
        m = re.match(r"RTMA\.(SDF|MDF)\.(\w+) = \(\) => \{( return \{\} \};)?$", line)
        if m:
            cur = m.group(2)
            out["defs"][cur] = []
            out["order"].append(("class", cur))
            if m.group(3):
                cur = None
            continue
        m = re.match(r"RTMA\.(aliases|SDF|MDF)\.(\w+) = (.+);$", line)
        if m:
            out["order"].append(("alias", m.group(2), m.group(3)))
        m = re.match(r"RTMA\.MT\.(\w+) = (.+);$", line)
        if m:
            out["ids"][m.group(1)] = m.group(2)
        m = re.match(r'RTMA\.HASH\.(\w+) = "(\w+)";$', line)
        if m:
            out["hash"][m.group(1)] = m.group(2).lower()
        if cur:
            m = re.match(r"\s+(\w+): (.+?),?$", line)
            if m:
                name, rhs = m.group(1), m.group(2)
                m2 = re.match(r"Array\((.+)\)\.fill\((.+)\(\)\)$", rhs) or re.match(r"Array\.from\(\{ ?length: (.+?) ?\}, \(\) => (.+)\(\)\)$", rhs)
                m3 = re.match(r"type_map\.string\((.+)\)$", rhs)
                if m2:
                    out["defs"][cur].append((name, m2.group(2), m2.group(1)))
                elif m3:
                    out["defs"][cur].append((name, "type_map.char", m3.group(1)))
                else:
                    out["defs"][cur].append((name, rhs[:-2] if rhs.endswith("()") else rhs, "0"))
            if line.startswith("};"):
                cur = None
    return out


def read_m(text):
    out = {"defs": {}, "ids": {}, "hash": {}, "order": []}
    for line in text.splitlines():
        m = re.match(r"RTMA\.(typedefs|MDF)\.(\w+) = struct\(\);$", line)
        if m:
            out["defs"][m.group(2)] = []
            out["order"].append(("class", m.group(2)))
            continue
        m = re.match(r"RTMA\.(typedefs|MDF)\.(\w+)\.(\w+) = (repmat\((.+), 1, (.+)\)|(.+));$", line)
        if m:
            if m.group(5):
                out["defs"][m.group(2)].append((m.group(3), m.group(5), m.group(6)))
            else:
                out["defs"][m.group(2)].append((m.group(3), m.group(7), "0"))
            continue
        m = re.match(r"RTMA\.(typedefs|MDF)\.(\w+) = (.+);$", line)
        if m:
            out["order"].append(("alias", m.group(2), m.group(3)))
        m = re.match(r"RTMA\.MT\.(\w+) = (.+);$", line)
        if m:
            out["ids"][m.group(1)] = m.group(2)
        m = re.match(r'RTMA\.hash\.(\w+) = "(\w+)";$', line)
        if m:
            out["hash"][m.group(1)] = m.group(2).lower()
    return out


CONST_PATTERNS = {
    "py": r"^(\w+): (?:int|float) = (.+)$",
    "c": r"^#define (\w+)\s+(.+)$",
    "js": r"^RTMA\.constants\.(\w+) = (.+);$",
    "m": r"^RTMA\.defines\.(\w+) = (.+);$",
}


def read_consts(lang, text):
    out = {}
    for line in text.splitlines():
        m = re.match(CONST_PATTERNS[lang], line)
        if m and not m.group(1).startswith(("MT_", "MID_", "HID_", "HASH_", "COMPILED", "_")):
            out[m.group(1)] = m.group(2).strip()
    return out


def c_eval(text):
    """value of a numeric #define body as a C compiler evaluates it (int / int is integer division, truncating)"""
    import ast

    def ev(n):
        if isinstance(n, ast.Expression):
            return ev(n.body)
        if isinstance(n, ast.Constant) and isinstance(n.value, (int, float)):
            return n.value
        if isinstance(n, ast.UnaryOp) and isinstance(n.op, (ast.USub, ast.UAdd)):
            v = ev(n.operand)
            return -v if isinstance(n.op, ast.USub) else v
        if isinstance(n, ast.BinOp):
            a, b = ev(n.left), ev(n.right)
            if isinstance(n.op, ast.Add):
                return a + b
            if isinstance(n.op, ast.Sub):
                return a - b
            if isinstance(n.op, ast.Mult):
                return a * b
            if isinstance(n.op, ast.Div):
                if isinstance(a, int) and isinstance(b, int):
                    q = abs(a) // abs(b)
                    return q if (a >= 0) == (b >= 0) else -q
                return a / b
            if isinstance(n.op, ast.Mod):
                return int(a - b * int(a / b))
        raise ValueError("not a numeric C expression: %r" % text)

    return ev(ast.parse(text.strip(), mode="eval"))


def constants_agree(p, outs):
    for lang in ("py", "c", "js", "m"):
        got = read_consts(lang, outs[lang])
        for c in p.constants.values():
            if c.name not in got:
                return False, "%s output lacks constant %s" % (lang, c.name)
            try:
                v = c_eval(got[c.name]) if lang == "c" else eval(got[c.name], {"__builtins__": {}})
            except Exception:
                return False, "%s: constant %s = %r is not a number" % (lang, c.name, got[c.name])
            if v != c.value:
                return False, "%s: constant %s evaluates to %r, the compiler computed %r" % (lang, c.name, v, c.value)
    return True, ""


def resolve_model(p, type_name):
    """element class (size, format) of a field type through aliases, or ('def', name) for struct/message types"""
    t = type_name
    for _ in range(12):
        if t in P.supported_types:
            return (P.supported_types[t].size, P.supported_types[t].format)
        if t in p.aliases:
            t = p.aliases[t].type_name
            continue
        return ("def", t)
    return ("?", t)


def elem_class(lang, p, t):
    """element class of the type text a back end emitted"""
    if lang == "py":
        if t in PY_DESC:
            return PY_DESC[t]
        return ("def", t[4:] if t.startswith("MDF_") else t)
    if lang == "c":
        if t in C_W:
            return C_W[t]
        t2 = t[4:] if t.startswith("MDF_") else t
        return resolve_model(p, t2)
    if lang == "js":
        m = re.match(r"type_map\.(\w+)$", t)
        if m:
            n = m.group(1).replace("_", " ")
            return (P.supported_types[n].size, P.supported_types[n].format) if n in P.supported_types else ("?", t)
        m = re.match(r"RTMA\.(SDF|MDF|aliases)\.(\w+)$", t)
        if m:
            return resolve_model(p, m.group(2))
        return ("?", t)
    if lang == "m":
        m = re.match(r"(\w+)\(0\)$", t)
        if m and m.group(1) in ML_W:
            return ML_W[m.group(1)]
        m = re.match(r"RTMA\.(typedefs|MDF)\.(\w+)$", t)
        if m:
            return resolve_model(p, m.group(2))
        return ("?", t)


def same_class(a, b, lang):
    if lang == "m" and a[0] == 1 and b[0] == 1 and {a[1], b[1]} <= {"c", "b"}:
        return True      # MATLAB has no 1-byte char type: char is emitted as int8 (same width)
    if a[0] == 1 and b[0] == 1 and {a[1], b[1]} <= {"B"}:
        return True
    return a == b


def agreement(p, outs, ids_tokens):
    readers = {"py": read_py, "c": read_c, "js": read_js, "m": read_m}
    parsed = {k: readers[k](outs[k]) for k in readers}
    model = {}
    for d in list(p.struct_defs.values()) + list(p.message_defs.values()):
        model[d.name] = [(f.name, resolve_model(p, f.type_name), str(f.length or 0)) for f in d.fields]
    for lang, r in parsed.items():
        for name, fields in model.items():
            if name not in r["defs"]:
                return False, "%s output lacks definition %s" % (lang, name)
            got = r["defs"][name]
            if len(got) != len(fields):
                return False, "%s: %s has %d fields, the parser has %d" % (lang, name, len(got), len(fields))
            for (gn, gt, gl), (fn, fc, fl) in zip(got, fields):
                if gn != fn:
                    return False, "%s: %s field order/name differs (%s vs %s)" % (lang, name, gn, fn)
                gc = elem_class(lang, p, gt)
                if not same_class(gc, fc, lang):
                    return False, "%s: %s.%s element type %s (%s) differs from the parser's %s" % (lang, name, fn, gt, gc, fc)
                if lang == "py" and fl == "1":
                    continue
                if gl != fl:
                    return False, "%s: %s.%s array length %s differs from %s" % (lang, name, fn, gl, fl)
        for mt in p.message_ids.values():
            if mt.name not in r["ids"]:
                return False, "%s output lacks the id of %s" % (lang, mt.name)
        for d in p.message_defs.values():
            if r["hash"].get(d.name) != d.hash[:8]:
                return False, "%s output carries hash %s for %s, the parser computed %s" % (lang, r["hash"].get(d.name), d.name, d.hash[:8])
    # ids agree across languages (tokens for symbolic ids)
    for mt in p.message_ids.values():
        vals = {parsed[k]["ids"][mt.name] for k in parsed}
        if len(vals) != 1:
            return False, "message id of %s differs between outputs: %s" % (mt.name, sorted(vals))
    return True, ""


def load_order(p, outs):
    """every output may only use names it has already defined (def-before-use per language)"""
    problems = []
    # python: aliases and classes in textual order
    defined = set()
    r = read_py(outs["py"])
    fields = r["defs"]
    for item in r["order"]:
        if item[0] == "alias":
            tgt = item[2]
            if not tgt.startswith("ctypes.") and tgt not in defined:
                problems.append(("py", "alias %s = %s before %s is defined" % (item[1], tgt, tgt)))
            defined.add(item[1])
        else:
            for fn, ft, fl in fields[item[1]]:
                if ft not in PY_DESC and ft not in defined and (ft[4:] if ft.startswith("MDF_") else ft) not in defined:
                    problems.append(("py", "%s.%s uses %s before it is defined" % (item[1], fn, ft)))
            defined.add(item[1])
    # C
    defined = set()
    r = read_c(outs["c"])
    for item in r["order"]:
        if item[0] == "alias":
            tgt = item[2]
            t2 = tgt[4:] if tgt.startswith("MDF_") else tgt
            if tgt not in C_W and t2 not in defined:
                problems.append(("c", "typedef %s %s before %s is defined" % (tgt, item[1], tgt)))
            defined.add(item[1][4:] if item[1].startswith("MDF_") else item[1])
        else:
            for fn, ft, fl in r["defs"][item[1]]:
                t2 = ft[4:] if ft.startswith("MDF_") else ft
                if ft not in C_W and t2 not in defined:
                    problems.append(("c", "%s.%s uses %s before it is defined" % (item[1], fn, ft)))
            defined.add(item[1])
    # JavaScript: statement order at module evaluation; factories are called later, so inside a factory any name bound by
    # the END of the module is fine, but (i) a top-level right-hand side must exist when it is evaluated, (ii) everything
    # called with () must be a function, (iii) array elements must be distinct objects
    js = outs["js"]
    bound = {}
    containers = set()
    for line in js.splitlines():
        m = re.match(r"RTMA\.(\w+) = +\{\};", line)
        if m:
            containers.add(m.group(1))
            for k in [k for k in bound if k.startswith("RTMA.%s." % m.group(1))]:
                del bound[k]
            continue
        m = re.match(r"RTMA\.(aliases|SDF|MDF)\.(\w+) = (.+?);?$", line)
        if m:
            lhs, rhs = "RTMA.%s.%s" % (m.group(1), m.group(2)), m.group(3)
            if m.group(1) not in containers:
                problems.append(("js", "%s is assigned before RTMA.%s exists" % (lhs, m.group(1))))
            if rhs.startswith("() =>"):
                bound[lhs] = "function"
            elif re.match(r"type_map\.\w+\(\)$", rhs):
                bound[lhs] = "value"
            elif re.match(r"type_map\.\w+$", rhs):
                bound[lhs] = "function"
            elif re.match(r"RTMA\.\w+\.\w+$", rhs):
                if rhs not in bound:
                    problems.append(("js", "%s = %s, which is undefined at that point" % (lhs, rhs)))
                    bound[lhs] = "undefined"
                else:
                    bound[lhs] = bound[rhs]
    r = read_js(js)
    for name, fl in r["defs"].items():
        for fn, ft, ln in fl:
            if ft.startswith("RTMA.") and bound.get(ft) != "function":
                problems.append(("js", "%s.%s calls %s(), which is %s" % (name, fn, ft, bound.get(ft, "never defined"))))
    if re.search(r"Array\(.+\)\.fill\(RTMA\.(SDF|MDF)\.", js):     # filling with a primitive (native type or alias of one) is harmless
        problems.append(("js", "struct array elements share one object (Array(n).fill(obj))"))
    # MATLAB: right-hand sides mention only fields already assigned
    assigned = set()
    for line in outs["m"].splitlines():
        m = re.match(r"(RTMA\.(typedefs|MDF)\.\w+)(\.\w+)? = (.+);$", line)
        if m:
            for ref in re.findall(r"RTMA\.(?:typedefs|MDF)\.\w+", m.group(4)):
                if ref not in assigned:
                    problems.append(("m", "%s refers to %s before it is assigned" % (m.group(1), ref)))
            assigned.add(m.group(1))
    return problems


# ---------------------------------------------------------------- real toolchains (replay, VERIF_BACKEND=real)
import os as _os
import subprocess as _sp
import tempfile as _tf
import shutil as _sh
import sys as _sys

REAL = _os.environ.get("VERIF_BACKEND", "shadow") == "real"
C_PRELUDE = "#include <stdint.h>\n#include <stddef.h>\n#include <stdio.h>\ntypedef int16_t HOST_ID; typedef int16_t MODULE_ID; typedef int32_t MSG_TYPE;\n"


def toolchain(p, outs):
    """load every output with the real tool of its language; returns (problems, layout) where layout maps
    definition -> {"c": (size, [offsets]), "py": (size, [offsets])}"""
    probs = []
    layout = {}
    d = _tf.mkdtemp(prefix="verif_cmp_")
    try:
        names = [x.name for x in p.struct_defs.values()] + [x.name for x in p.message_defs.values() if x.fields]
        # --- python: import the generated module, every message registered, sizes/offsets from ctypes
        with open(_os.path.join(d, "gen_defs.py"), "w") as f:
            f.write(outs["py"])
        code = ("import sys, json, ctypes; sys.path.insert(0, %r); import gen_defs as g\n"
                "out = {}\n"
                "for n in %r:\n"
                "    c = getattr(g, 'MDF_' + n, None) or getattr(g, n)\n"
                "    out[n] = (ctypes.sizeof(c), [getattr(c, f[0]).offset for f in c._fields_])\n"
                "import pyrtma.message as M\n"
                "for n, i in %r:\n"
                "    assert M._msg_defs[i].type_name == n, (n, i)\n"
                "print('LAYOUT ' + json.dumps(out))\n") % (d, names, [(m.name, m.type_id) for m in p.message_defs.values()])
        r = _sp.run([_sys.executable, "-c", code], capture_output=True, text=True, timeout=120)
        if r.returncode != 0:
            probs.append(("py", "generated module does not import: " + (r.stderr.strip().splitlines() or ["?"])[-1]))
        else:
            import json as _json
            for line in r.stdout.splitlines():
                if line.startswith("LAYOUT "):
                    for n, v in _json.loads(line[7:]).items():
                        layout.setdefault(n, {})["py"] = (v[0], v[1])
        # --- C: the header compiles; sizeof/offsetof of every struct
        with open(_os.path.join(d, "defs.h"), "w") as f:
            f.write(outs["c"])
        body = []
        for x in list(p.struct_defs.values()) + [m for m in p.message_defs.values() if m.fields]:
            cn = ("MDF_" + x.name) if isinstance(x, P.MDF) else x.name
            body.append('printf("%s %%zu", sizeof(%s));' % (x.name, cn))
            for fl in x.fields:
                body.append('printf(" %%zu", offsetof(%s, %s));' % (cn, fl.name))
            body.append('printf("\\n");')
        for c in p.constants.values():
            body.append('printf("CONST %s %%.17g\\n", (double)(%s));' % (c.name, c.name))
        with open(_os.path.join(d, "t.c"), "w") as f:
            f.write(C_PRELUDE + '#include "defs.h"\nint main(){\n' + "\n".join(body) + "\nreturn 0;}\n")
        r = _sp.run(["gcc", "-w", "-I", d, "-o", _os.path.join(d, "t"), _os.path.join(d, "t.c")], capture_output=True, text=True, timeout=120)
        if r.returncode != 0:
            probs.append(("c", "generated header does not compile: " + (r.stderr.strip().splitlines() or ["?"])[0][-200:]))
        else:
            r = _sp.run([_os.path.join(d, "t")], capture_output=True, text=True, timeout=60)
            for line in r.stdout.splitlines():
                parts = line.split()
                if parts[0] == "CONST":
                    layout.setdefault("__const__", {})[parts[1]] = float(parts[2])
                    continue
                layout.setdefault(parts[0], {})["c"] = (int(parts[1]), [int(v) for v in parts[2:]])
        # --- JavaScript: the module imports, every factory returns a fresh object with distinct array elements
        with open(_os.path.join(d, "defs.mjs"), "w") as f:
            f.write(outs["js"])
        js = ("import { RTMA } from './defs.mjs';\n"
              "const bad = [];\n"
              "for (const sect of ['SDF', 'MDF']) for (const [n, f] of Object.entries(RTMA[sect])) {\n"
              "  let a, b; try { a = f(); b = f(); } catch (e) { bad.push(sect + '.' + n + ' factory throws: ' + e.message); continue; }\n"
              "  if (a === b) bad.push(sect + '.' + n + ' returns the same object twice');\n"
              "  for (const [k, v] of Object.entries(a)) {\n"
              "    if (v === undefined) bad.push(sect + '.' + n + '.' + k + ' is undefined');\n"
              "    if (Array.isArray(v) && v.length > 1 && typeof v[0] === 'object' && v[0] !== null && v[0] === v[1]) bad.push(sect + '.' + n + '.' + k + ' array elements share one object');\n"
              "  }\n}\n"
              "console.log('JSRESULT ' + JSON.stringify(bad));\n")
        with open(_os.path.join(d, "t.mjs"), "w") as f:
            f.write(js)
        r = _sp.run(["node", _os.path.join(d, "t.mjs")], capture_output=True, text=True, timeout=120, cwd=d)
        if r.returncode != 0:
            probs.append(("js", "generated module does not import: " + (r.stderr.strip().splitlines() or ["?"])[-1][-200:]))
        else:
            import json as _json
            for line in r.stdout.splitlines():
                if line.startswith("JSRESULT "):
                    for b in _json.loads(line[9:]):
                        probs.append(("js", b))
    finally:
        _sh.rmtree(d, ignore_errors=True)
    return probs, layout


def scenario(which, base, mid, hid, cval):
    i0, i1, i2 = base, base + 1, base + 2
    if sh("idorder") == "desc":     # later definitions carry the smaller ids (a nested message then has a larger id than its user)
        i0, i1, i2 = base + 2, base + 1, base
    defs = sh("defs")
    imported = sh("imported", 0)
    if sh("kf") and sh("kf") in sh("known", []):
        return True, "descriptor shape of a recorded known finding: excluded (its witness is replayed separately)"
    prior = sh("prior")
    if prior:
        # an earlier, unrelated compilation in the same process (same names, other meanings): whatever a back end keeps at
        # class or module level from it must not leak into this one.  Concrete ids; its outputs are discarded.
        with NoTracing():
            q = bare_parser()
            try:
                feed(q, prior["defs"], prior.get("imported", 0), [7001, 7002, 7003], 11, 3, 5, consts=prior.get("consts", []))
                emit(q)
            except Exception as e:
                return False, "the earlier compilation of the same process failed: %s: %s" % (type(e).__name__, e)
    p = bare_parser()
    try:
        feed(p, defs, imported, [i0, i1, i2], mid, hid, cval)
    except P.ParserError as e:
        if sh("wellformed", 1):
            return False, "well-formed definitions rejected: %s: %s" % (type(e).__name__, e)
        return True, "rejected"
    except Exception as e:
        return False, "internal error in the parser: %s: %s" % (type(e).__name__, e)
    # the back ends only print the numeric ids: each symbolic id is replaced by its own token in the parser's model, and the
    # four generate() methods then run on concrete data outside the tracer (ids were compared by the traced handlers above)
    with NoTracing():
        tok = []

        def token(v):
            if type(v) in (int, str):
                return v
            for k, t in tok:
                if k is v:
                    return t
            t = "<sym:%x>" % id(v)
            # the message ids are base, base+1, base+2: their tokens sort the way the ids do, so a back end that orders its
            # output by id orders the tokens like the numbers
            for rank, known in enumerate(sorted_ids):
                if known is v:
                    t = "<sym:id%04d>" % rank
            tok.append((v, t))
            return t

        sorted_ids = [i2, i1, i0] if sh("idorder") == "desc" else [i0, i1, i2]

        for mt in p.message_ids.values():
            mt.value = token(mt.value)
        for m in p.message_defs.values():
            m.type_id = token(m.type_id)
        for x in list(p.host_ids.values()) + list(p.module_ids.values()):
            x.value = token(x.value)
        try:
            outs = emit(p)
        except Exception as e:
            return False, "internal error in a back end: %s: %s" % (type(e).__name__, e)
    if which == "c04":
        with NoTracing():
            ok, why = agreement(p, outs, [i0, i1, i2])
            if ok:
                ok, why = constants_agree(p, outs)
        if ok and REAL:
            # replay: the layout the C compiler gives the generated header == the generated Python class == the parser's size
            probs, layout = toolchain(p, outs)
            for c in p.constants.values():
                cv = layout.get("__const__", {}).get(c.name)
                if cv is not None and cv != float(c.value):
                    return False, "constant %s is %r for the C compiler, %r for the pyrtma compiler (and the other outputs)" % (c.name, cv, c.value)
            for x in list(p.struct_defs.values()) + [m for m in p.message_defs.values() if m.fields]:
                L = layout.get(x.name, {})
                if "c" in L and "py" in L:
                    if L["c"] != L["py"] or L["c"][0] != x.size:
                        return False, "%s: C layout %s, Python layout %s, size recorded by the compiler %d" % (x.name, L["c"], L["py"], x.size)
        return ok, why
    if REAL:
        probs, _ = toolchain(p, outs)
        # MATLAB has no interpreter here: keep the textual oracle for it
        probs += [pr for pr in load_order(p, outs) if pr[0] == "m"]
    else:
        with NoTracing():
            probs = load_order(p, outs)
    left = ["%s: %s" % (lang, t) for lang, t in probs]
    if left:
        return False, "; ".join(left[:3])
    return True, ""


def _pre(base, mid, hid, cval):
    # the constant stays concrete: str() of a symbolic int yields a symbolic string that drags the templates through CrossHair's regex interpreter
    return (0 <= base <= 9998) and (10 <= mid <= 99) and (1 <= hid <= 32767) and cval == 5


def c04(base: int, mid: int, hid: int, cval: int) -> bool:
    """
    pre: _pre(base, mid, hid, cval)
    post: _
    """
    return verdict(scenario("c04", base, mid, hid, cval))


def c04_reach(base: int, mid: int, hid: int, cval: int) -> bool:
    """
    pre: _pre(base, mid, hid, cval)
    post: _
    """
    return reached(scenario("c04", base, mid, hid, cval))


def c15(base: int, mid: int, hid: int, cval: int) -> bool:
    """
    pre: _pre(base, mid, hid, cval)
    post: _
    """
    return verdict(scenario("c15", base, mid, hid, cval))


def c15_reach(base: int, mid: int, hid: int, cval: int) -> bool:
    """
    pre: _pre(base, mid, hid, cval)
    post: _
    """
    return reached(scenario("c15", base, mid, hid, cval))
