"""C06 (options honoured): real Client.__init__ / connect / _connect_helper / client_context composed with the real
manager connect path.  Every frame the client emits is captured at Client.send_message and handed to the real
MessageManager.process_message; the acknowledgement the manager writes is what _wait_for_acknowledgement returns.

shard: entry = "connect" | "context"; name index into POOL
       reconnect = 1 (entry connect): after the first connect the connection is lost (the client notices on its read/send path:
                   connected becomes False without disconnect() having run, the manager removes the module), and the caller
                   connects again on the same Client object with the same options
symbolic: module_id 0..99, logger_status, daemon_status (connect only), allow_multiple, the manager's dynamic-id cursor 0..99
"""
from engine import mgrworld as W
from engine import cliworld as CW
from engine.standins import NullLogger
from harness.common import sh, set_shard, verdict, reached  # noqa: F401
from pyrtma.validators import disable_message_validation
from pyrtma.message import Message

M = W.M
C = CW.C
cd = W.cd
POOL = ["", "a", "b"]
C.RTMALogger = lambda *a, **k: NullLogger()


class Link:
    """the wire between one client and the manager under test"""
    cur = None

    def __init__(self):
        self.mm, mods = W.build(1)
        self.mod = mods[0]
        self.mm.wlist = [self.mod.conn]
        self.sent = []

    def deliver(self):
        with disable_message_validation():
            for data in self.sent:
                real = getattr(type(data), "_real", type(data))
                fields = {}
                for p, ft in W.SH.all_fields(real):
                    v = getattr(data, p)
                    if CW.SHADOW and isinstance(v, bytes):
                        v = data.__dict__["$" + p[1:]]
                    fields[p[1:]] = v
                W.set_incoming(self.mm, dict(msg_type=real.type_id, src_mod_id=self.client_id, num_data_bytes=real.type_size),
                               ("MDF_" + real.type_name, fields))
                if W._contains(list(self.mm.modules.values()), self.mod):
                    self.mm.process_message(self.mod)
        del self.sent[:]


def _socket_connect(self, server_name):
    self._connected = True


def _send_message(self, msg_data, *a, **k):
    link = Link.cur
    link.client_id = self._module_id
    link.sent.append(msg_data)


def _wait_for_acknowledgement(self, timeout=3):
    link = Link.cur
    link.deliver()
    acks = [hd for hd, p in link.mod.conn.frames() if hd["msg_type"] == cd.MT_ACKNOWLEDGE]
    if not acks:
        raise C.AcknowledgementTimeout("no ack")
    h = W.new_header(link.mm, **{k: v for k, v in acks[0].items()})
    return Message(h, None)


C.Client._socket_connect = _socket_connect
C.Client.send_message = _send_message
C.Client._wait_for_acknowledgement = _wait_for_acknowledgement
C.Client.disconnect = lambda self: setattr(self, "_connected", False)
STUBS = ["Client._socket_connect -> marks the client connected (no TCP)", "Client.send_message -> hands the message object to the manager under test",
         "Client._wait_for_acknowledgement -> delivers pending frames to the real process_message and returns the manager's ACK",
         "Client.disconnect -> marks disconnected", "RTMALogger -> NullLogger"]


def scenario(module_id, logger_status, daemon_status, allow_multiple, off=0):
    entry = sh("entry", "connect")
    name = POOL[sh("name", 0)]
    link = Link()
    Link.cur = link
    link.mm.next_dynamic_mod_id_offset = off     # the manager has handed out dynamic ids before (any cursor position)
    try:
        if entry == "connect":
            c = C.Client(module_id=module_id, name=name)
            c.connect("localhost:7111", logger_status=logger_status, daemon_status=daemon_status, allow_multiple=allow_multiple)
            want_daemon = daemon_status
            if sh("reconnect", 0):
                link.deliver()
                first_id = link.mod.mod_id
                # the connection is lost: what the client's own error paths do, and what the manager does on its side
                c._connected = False
                with disable_message_validation():
                    link.mm.remove_module(link.mod)
                # a new TCP connection to the same manager: a fresh accepted module
                conn = W.FakeConn(9)
                fresh = M.Module(uid=77, conn=conn, address=("10.0.0.9", 1), header_cls=link.mm.header_cls)
                if W.SHADOW:
                    fresh.subs = W.LinearSet()
                link.mm.modules[conn] = fresh
                link.mm.wlist = [conn]
                link.mod = fresh
                try:
                    c.connect("localhost:7111", logger_status=logger_status, daemon_status=daemon_status, allow_multiple=allow_multiple)
                except C.AcknowledgementTimeout:
                    return False, "re-connect after a lost connection was refused (first id %s)" % ("dynamic" if module_id == 0 else "explicit")
                except Exception as e:
                    return False, "re-connect after a lost connection raised %s" % type(e).__name__
        else:
            cm = C.client_context(module_id=module_id, server_name="localhost:7111", logger_status=logger_status,
                                  allow_multiple=allow_multiple, name=name)
            c = cm.__enter__()
            want_daemon = False
        link.deliver()   # MODULE_READY
    except C.AcknowledgementTimeout:
        return False, "a legitimate connection request was not acknowledged"
    mod = link.mod
    try:
        if not (mod.connected and W._contains(list(link.mm.modules.values()), mod)):
            return False, "module not connected at the manager"
        if mod.is_logger != logger_status:
            return False, "logger_status not honoured: asked %s" % logger_status
        if mod.is_daemon != want_daemon:
            return False, "daemon_status not honoured: manager has is_daemon=%s, caller asked %s" % (mod.is_daemon, want_daemon)
        if mod.unique != (not allow_multiple):
            return False, "allow_multiple not honoured: manager has unique=%s, caller asked allow_multiple=%s" % (mod.unique, allow_multiple)
        if name and mod.name != name:
            return False, "name not honoured"
        if module_id != 0:
            if not (mod.mod_id == module_id and c.module_id == module_id):
                return False, "module id not honoured"
        else:
            if not (cd.DYN_MOD_ID_START <= mod.mod_id < cd.MAX_MODULES and c.module_id == mod.mod_id):
                return False, "dynamic id not learnt from the acknowledgement"
        return True, ""
    finally:
        c._connected = False


def opts(module_id: int, logger_status: bool, daemon_status: bool, allow_multiple: bool, off: int) -> bool:
    """
    pre: 0 <= module_id <= 99 and 0 <= off <= 99
    post: _
    """
    return verdict(scenario(module_id, logger_status, daemon_status, allow_multiple, off))


def opts_reach(module_id: int, logger_status: bool, daemon_status: bool, allow_multiple: bool, off: int) -> bool:
    """
    pre: 0 <= module_id <= 99 and 0 <= off <= 99
    post: _
    """
    return reached(scenario(module_id, logger_status, daemon_status, allow_multiple, off))
