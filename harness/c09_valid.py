"""C09: the real pyrtma.validators descriptors over the ctypes shadow of tests' MDF_VALIDATOR_A (one field of every kind,
arrays of 4) - assignment either succeeds and reads back the value, or raises and leaves every field unchanged; values
outside the domain are refused wherever they occur; validation is on outside disable blocks.

shard: kind = int_scalar | int_elem | int_slice | float_scalar | float_slice | string | char | byte_slice | wrongtype |
              struct | disable
       field (name of the field of MDF_VALIDATOR_A), n (list length), bad (index into BAD menu), depth (disable nesting)
symbolic: unbounded ints, IEEE doubles (all bit patterns), str/bytes of bounded length, indices, slice bounds, exit bits
"""
import ctypes
import math
import sys

sys.path.insert(0, "/repo/tests")
import test_msg_defs.test_defs as TD  # noqa: E402
from pyrtma import validators as V  # noqa: E402
from engine import shadow as SH  # noqa: E402
from engine import cliworld as CW  # noqa: E402  (backend switch only)
from harness.common import sh, set_shard, verdict, reached  # noqa: F401,E402

REAL = TD.MDF_VALIDATOR_A
CLS = SH.shadow_of(REAL) if CW.SHADOW else REAL
SUB = SH.shadow_of(TD.VALIDATOR_STRUCT) if CW.SHADOW else TD.VALIDATOR_STRUCT
OTHER = SH.shadow_of(TD.MDF_VALIDATOR_B) if CW.SHADOW else TD.MDF_VALIDATOR_B
RANGES = {"int8": (-2**7, 2**7 - 1), "int16": (-2**15, 2**15 - 1), "int32": (-2**31, 2**31 - 1), "int64": (-2**63, 2**63 - 1),
          "uint8": (0, 2**8 - 1), "uint16": (0, 2**16 - 1), "uint32": (0, 2**32 - 1), "uint64": (0, 2**64 - 1), "byte": (0, 255)}
BAD = [1.5, "1", None, b"\x01\x02", [1], (1,), 1 + 0j, object(), float("nan")]


def fresh():
    """a message with non-zero previous contents; everything here is concrete, so it is built outside the tracer"""
    V._VALIDATION_ENABLED.set(True)   # each execution starts with validation on, whatever an earlier path left behind
    with SH.NoTracing():
        return _fresh()


def _fresh():
    m = CLS()
    # non-zero previous contents
    with V.disable_message_validation():
        m.int8, m.int16, m.int32, m.int64, m.uint8, m.uint16, m.uint32, m.uint64, m.byte = 1, 2, 3, 4, 5, 6, 7, 8, 9
        m.float, m.double = 1.5, 2.5
        m.string, m.char = "ab", "c"
        for f in ("int8_arr", "int16_arr", "int32_arr", "int64_arr", "uint8_arr", "uint16_arr", "uint32_arr", "uint64_arr", "byte_arr"):
            getattr(m, f)[:] = [1, 2, 3, 4]
        m.float_arr[:] = [0.5, 1.5, 2.5, 3.5]
        m.double_arr[:] = [0.5, 1.5, 2.5, 3.5]
    return m


def assign(m, field, v):
    """m.<field> = v without going through the setattr() builtin (CrossHair runs that one untraced)"""
    if CW.SHADOW:
        CLS.__dict__[field].__set__(m, v)
    else:
        setattr(m, field, v)


def read(m, field):
    if CW.SHADOW:
        return CLS.__dict__[field].__get__(m, CLS)
    return getattr(m, field)


def store(m):
    if CW.SHADOW:
        with SH.NoTracing():
            return m._shadow_store()
    return bytes(m)


def same_store(a, b):
    if CW.SHADOW:
        return SH.store_eq_fast(a, b)
    return a == b


def rng(field):
    return RANGES[field.replace("_arr", "")]


def f32(x):
    return SH.round_f32(x)


def feq(a, b):
    return a == b or (a != a and b != b)


def attempt(m, fn):
    """returns (accepted, exception name); on refusal checks atomicity"""
    before = store(m)
    try:
        fn()
    except Exception as e:
        if not same_store(before, store(m)):
            return None, "assignment raised %s but the message changed" % type(e).__name__
        return False, type(e).__name__
    return True, None


def int_scalar(v):
    field = sh("field")
    lo, hi = rng(field)
    m = fresh()
    acc, why = attempt(m, lambda: assign(m, field, v))
    if acc is None:
        return False, why
    valid = lo <= v <= hi
    if acc != valid:
        return False, "%s: value %s accepted=%s (%s)" % (field, "inside" if valid else "outside the range", acc, why)
    if acc and read(m, field) != v:
        return False, "read back differs"
    return True, ""


def int_elem(i, v):
    field = sh("field")
    lo, hi = rng(field)
    m = fresh()
    acc, why = attempt(m, lambda: read(m, field).__setitem__(i, v))
    if acc is None:
        return False, why
    valid = (lo <= v <= hi) and (-4 <= i < 4)
    if acc != valid:
        return False, "%s[%s]: accepted=%s valid=%s" % (field, "i", acc, valid)
    if acc:
        got = read(m, field)[i]
        if field == "byte_arr":
            got = int.from_bytes(got, "little")
        if got != v:
            return False, "read back differs"
        k = i if i >= 0 else i + 4
        rest = read(m, field)[:]
        for j in range(4):
            if j != k:
                w = rest[j] if field != "byte_arr" else rest[j]
                if w != j + 1:
                    return False, "a neighbouring element changed"
    return True, ""


def int_slice(a, b, v0, v1, v2, v3, bp):
    a, b = sh("ab", [0, 2])     # slice shape: a shard dimension (every shape in the thorough tier)
    field = sh("field")
    n = sh("n", 2)
    lo, hi = rng(field)
    vals = [v0, v1, v2, v3][:n]
    bad = sh("bad", None)
    if bad is not None:
        vals[bp] = BAD[bad]
    m = fresh()
    acc, why = attempt(m, lambda: read(m, field).__setitem__(slice(a, b), vals))
    if acc is None:
        return False, why
    idx = range(*slice(a, b).indices(4))
    in_domain = bad is None
    for x in vals:
        if isinstance(x, int) and not isinstance(x, bool):
            if not (lo <= x <= hi):
                in_domain = False
    right_len = len(idx) == n
    if acc and not (in_domain and right_len):
        return False, "%s[a:b] accepted a sequence that is %s" % (field, "out of domain" if not in_domain else "of the wrong length")
    if acc:
        got = read(m, field)[:]
        for j, x in zip(idx, vals):
            if got[j] != x:
                return False, "read back differs"
    elif in_domain and right_len and n > 0:
        return False, "%s[a:b] refused a valid sequence (%s)" % (field, why)
    return True, ""


def float_scalar(x):
    field = sh("field")
    m = fresh()
    acc, why = attempt(m, lambda: assign(m, field, x))
    if acc is None:
        return False, why
    stored = f32(x) if field == "float" else x
    overflow = math.isinf(stored)
    if acc == overflow:
        return False, "%s: accepted=%s although the stored value is %sfinite (%s)" % (field, acc, "in" if overflow else "", why)
    if acc and not feq(read(m, field), stored):
        return False, "read back is not the nearest representable value"
    return True, ""


def float_slice(x0, x1, x2, x3, a, b):
    a, b = sh("ab", [0, 2])
    field = sh("field")
    n = sh("n", 3)
    vals = [x0, x1, x2, x3][:n]
    m = fresh()
    acc, why = attempt(m, lambda: read(m, field).__setitem__(slice(a, b), vals))
    if acc is None:
        return False, why
    idx = range(*slice(a, b).indices(4))
    single = field == "float_arr"
    bad = False
    for x in vals:
        if math.isinf(f32(x) if single else x):
            bad = True
    if acc and (bad or len(idx) != n):
        return False, "%s accepted a sequence with an element that %s" % (field, "overflows to infinity" if bad else "has the wrong length")
    if acc:
        got = read(m, field)[:]
        for j, x in zip(idx, vals):
            if not feq(got[j], f32(x) if single else x):
                return False, "read back differs"
    elif not bad and len(idx) == n and n > 0:
        return False, "%s refused a valid sequence (%s)" % (field, why)
    return True, ""


def float_many(x0, x1, x2, x3):
    """the element check the array assignment relies on (validate_many of the element validator), alone"""
    field = sh("field")
    n = sh("n", 3)
    vals = [x0, x1, x2, x3][:n]
    single = field == "float_arr"
    desc = CLS.__dict__[field]
    V._VALIDATION_ENABLED.set(True)
    try:
        desc.validate_many(vals)
        acc = True
    except (TypeError, ValueError):
        acc = False
    bad = False
    for x in vals:
        if math.isinf(f32(x) if single else x):
            bad = True
    if acc and bad:
        return False, "%s accepted a sequence with an element that overflows to infinity" % field
    if not acc and not bad:
        return False, "%s refused a sequence of representable values" % field
    return True, ""


def string_set(s):
    field = sh("field", "string")
    m = fresh()
    acc, why = attempt(m, lambda: assign(m, field, s))
    if acc is None:
        return False, why
    cap = 3 if field == "string" else 1
    valid = len(s) <= cap and s.isascii()
    if field == "char" and len(s) == 0:
        return True, ""   # a char field holds exactly one character; the empty string may be refused or stored as NUL
    if acc != valid:
        return False, "%s: accepted=%s valid=%s (%s)" % (field, acc, valid, why)
    if acc:
        want = s.split("\x00")[0] if field == "string" else s
        got = read(m, field)
        if field == "char" and s == "":
            want = got   # an empty char stores nothing new: either NUL or the old value is tolerated by the statement
        if got != want:
            return False, "read back differs"
    return True, ""


def byte_slice(bs, a, b):
    a, b = sh("ab", [0, 2])
    m = fresh()
    acc, why = attempt(m, lambda: m.byte_arr.__setitem__(slice(a, b), bs))
    if acc is None:
        return False, why
    idx = range(*slice(a, b).indices(4))
    if acc and len(idx) != len(bs):
        return False, "byte array accepted a sequence of the wrong length"
    if acc:
        got = m.byte_arr[:]
        for j, x in zip(idx, bs):
            if got[j] != x:
                return False, "read back differs"
    elif len(idx) == len(bs) and len(bs) > 1:
        return False, "byte array refused valid bytes (%s)" % why
    return True, ""


def wrongtype(i):
    """every wrong Python type into every field kind, at a symbolic position for arrays"""
    field = sh("field")
    bad = BAD[sh("bad")]
    m = fresh()
    if field.endswith("_arr"):
        acc, why = attempt(m, lambda: read(m, field).__setitem__(i, bad))
    else:
        acc, why = attempt(m, lambda: assign(m, field, bad))
    if acc is None:
        return False, why
    ok_types = {"float": (float,), "double": (float,), "float_arr": (float,), "double_arr": (float,), "byte": (), "byte_arr": (),
                "string": (str,), "char": (str,)}
    legit = isinstance(bad, ok_types.get(field, ())) and (-4 <= i < 4 or not field.endswith("_arr"))
    if acc and not legit:
        return False, "%s accepted a %s" % (field, type(bad).__name__)
    return True, ""


CT_SRC = {"int8": ctypes.c_int8, "uint8": ctypes.c_uint8, "int16": ctypes.c_int16, "uint16": ctypes.c_uint16, "int32": ctypes.c_int32,
          "uint32": ctypes.c_uint32, "int64": ctypes.c_int64, "uint64": ctypes.c_uint64}


def ctypes_seq(whole):
    """a ctypes array (any element type) assigned to an integer array field: its elements are held to the field's range like
    those of any other sequence.  shard: field, src (element type of the assigned array), pos, extreme ("max" | "min")"""
    field = sh("field")
    lo, hi = rng(field)
    T = CT_SRC[sh("src")]
    bits, signed = SH.INT_TYPES[T]
    tlo, thi = SH.int_range(bits, signed)
    vals = [1, 2, 3, 4]
    vals[sh("pos", 1)] = thi if sh("extreme", "max") == "max" else tlo
    src = (T * 4)(*vals)
    m = fresh()
    if whole:
        acc, why = attempt(m, lambda: assign(m, field, src))
    else:
        acc, why = attempt(m, lambda: read(m, field).__setitem__(slice(0, 4), src))
    if acc is None:
        return False, why
    in_domain = all(lo <= v <= hi for v in vals)
    if acc and not in_domain:
        return False, "%s accepted a ctypes array of %s holding %d, outside its range" % (field, sh("src"), vals[sh("pos", 1)])
    if acc:
        got = read(m, field)[:]
        for j in range(4):
            if got[j] != vals[j]:
                return False, "read back differs"
    elif in_domain:
        return False, "%s refused a ctypes array whose elements all fit (%s)" % (field, why)
    return True, ""


def h_ctypes_seq(whole: bool) -> bool:
    """
    post: _
    """
    return verdict(ctypes_seq(whole))


def h_ctypes_seq_reach(whole: bool) -> bool:
    """
    post: _
    """
    return reached(ctypes_seq(whole))


def struct_set(k, i):
    m = fresh()
    good = SUB()
    cands = [good, OTHER(), CLS(), 5, None, [good]]
    v = cands[sh("cand", 0)]
    if sh("field", "struct") == "struct":
        acc, why = attempt(m, lambda: assign(m, "struct", v))
    else:
        acc, why = attempt(m, lambda: m.struct_arr.__setitem__(i, v))
    if acc is None:
        return False, why
    valid = sh("cand", 0) == 0 and (sh("field", "struct") == "struct" or -4 <= i < 4)
    if acc != valid:
        return False, "struct field accepted=%s valid=%s for a %s" % (acc, valid, type(v).__name__)
    return True, ""


class Boom(Exception):
    pass


def disable(e1, e2, e3, g1, g2, g3, v):
    """nest up to 3 disable blocks; block j is left by an exception iff ej; ignore flag gj; afterwards validation must be on"""
    V._VALIDATION_ENABLED.set(True)
    depth = sh("depth", 2)
    es, gs = [e1, e2, e3], [g1, g2, g3]
    m = CLS()

    kept = []

    def nest(j):
        if j == depth:
            return
        with V.disable_message_validation(ignore=gs[j]):
            inside_on = V._VALIDATION_ENABLED.get()
            if j == depth - 1:
                kept.append(read(m, "int8_arr"))     # an array handle obtained while validation is off, kept past the block
                kept.append(read(m, "byte_arr"))
            nest(j + 1)
            if es[j]:
                raise Boom()

    try:
        nest(0)
    except Boom:
        pass
    on = V._VALIDATION_ENABLED.get()
    # behaviour, not only the flag: an out-of-range value must be refused again
    refused = False
    try:
        assign(m, "int8", 128 + (v if 0 <= v <= 1000 else 0))
    except Exception:
        refused = True
    # a handle obtained inside the block is used after it: execution is outside any disable block now
    kept_refused = 0
    for h, bad in zip(kept, (128, 256)):
        try:
            h[1] = bad + (v if 0 <= v <= 1000 else 0)
        except Exception:
            kept_refused += 1
    V._VALIDATION_ENABLED.set(True)
    if not on or not refused:
        return False, "validation is still off after the disable block(s) were left"
    if kept_refused != len(kept):
        return False, "an array handle obtained inside a disable block still accepts out-of-range values after the block was left"
    return True, ""


def other_thread(v, w):
    """Validation is in force whenever execution is not inside an explicit disable block: a block entered by ANOTHER thread
    (the manager's service loop, a sender) is not this thread's block.  shard mode:
      held     the other thread is inside its block while this thread assigns
      overlap  other in, this in, other out, this out (two blocks that overlap without nesting), then this thread assigns
    symbolic: the out-of-range values assigned (v -> int8, w -> uint16 array element)"""
    import threading
    V._VALIDATION_ENABLED.set(True)
    mode = sh("mode", "held")
    m = fresh()
    before = store(m)
    with SH.NoTracing():
        entered, leave = threading.Event(), threading.Event()

        def body():
            with V.disable_message_validation():
                entered.set()
                leave.wait(20)

        th = threading.Thread(target=body, daemon=True)
        th.start()
        entered.wait(20)
    try:
        if mode == "overlap":
            with V.disable_message_validation():
                with SH.NoTracing():
                    leave.set()
                    th.join(20)
        problems = []
        for field, val in (("int8", v), ("uint16_arr", w)):
            try:
                if field == "int8":
                    assign(m, field, val)
                else:
                    read(m, field)[1] = val
                problems.append(field)
            except Exception:
                pass
    finally:
        with SH.NoTracing():
            leave.set()
            th.join(20)
        V._VALIDATION_ENABLED.set(True)
    if problems:
        return False, "out-of-range value accepted for %s while only another thread %s a disable block" % (problems[0], "holds" if mode == "held" else "had overlapped with")
    if not same_store(before, store(m)):
        return False, "message changed by refused assignments"
    return True, ""


# ---------------------------------------------------------------- entry points
def h_int_scalar(v: int) -> bool:
    """
    post: _
    """
    return verdict(int_scalar(v))


def h_int_scalar_reach(v: int) -> bool:
    """
    post: _
    """
    return reached(int_scalar(v))


def h_int_elem(i: int, v: int) -> bool:
    """
    pre: -6 <= i <= 6
    post: _
    """
    return verdict(int_elem(i, v))


def h_int_elem_reach(i: int, v: int) -> bool:
    """
    pre: -6 <= i <= 6
    post: _
    """
    return reached(int_elem(i, v))


def h_int_slice(a: int, b: int, v0: int, v1: int, v2: int, v3: int, bp: int) -> bool:
    """
    pre: a == 0 and b == 0 and 0 <= bp < max(1, sh("n", 2))
    post: _
    """
    return verdict(int_slice(a, b, v0, v1, v2, v3, bp))


def h_int_slice_reach(a: int, b: int, v0: int, v1: int, v2: int, v3: int, bp: int) -> bool:
    """
    pre: a == 0 and b == 0 and 0 <= bp < max(1, sh("n", 2))
    post: _
    """
    return reached(int_slice(a, b, v0, v1, v2, v3, bp))


def h_float_scalar(x: float) -> bool:
    """
    post: _
    """
    return verdict(float_scalar(x))


def h_float_scalar_reach(x: float) -> bool:
    """
    post: _
    """
    return reached(float_scalar(x))


def h_float_slice(x0: float, x1: float, x2: float, x3: float, a: int, b: int) -> bool:
    """
    pre: 0 <= a <= 4 and 0 <= b <= 4
    post: _
    """
    return verdict(float_slice(x0, x1, x2, x3, a, b))


def h_float_slice_reach(x0: float, x1: float, x2: float, x3: float, a: int, b: int) -> bool:
    """
    pre: 0 <= a <= 4 and 0 <= b <= 4
    post: _
    """
    return reached(float_slice(x0, x1, x2, x3, a, b))


def h_float_many(x0: float, x1: float, x2: float, x3: float) -> bool:
    """
    post: _
    """
    return verdict(float_many(x0, x1, x2, x3))


def h_float_many_reach(x0: float, x1: float, x2: float, x3: float) -> bool:
    """
    post: _
    """
    return reached(float_many(x0, x1, x2, x3))


def h_string(s: str) -> bool:
    """
    pre: len(s) <= 4
    post: _
    """
    return verdict(string_set(s))


def h_string_reach(s: str) -> bool:
    """
    pre: len(s) <= 4
    post: _
    """
    return reached(string_set(s))


def h_byte_slice(bs: bytes, a: int, b: int) -> bool:
    """
    pre: len(bs) <= 5 and a == 0 and b == 0
    post: _
    """
    return verdict(byte_slice(bs, a, b))


def h_byte_slice_reach(bs: bytes, a: int, b: int) -> bool:
    """
    pre: len(bs) <= 5 and a == 0 and b == 0
    post: _
    """
    return reached(byte_slice(bs, a, b))


def h_wrongtype(i: int) -> bool:
    """
    pre: -6 <= i <= 6
    post: _
    """
    return verdict(wrongtype(i))


def h_wrongtype_reach(i: int) -> bool:
    """
    pre: -6 <= i <= 6
    post: _
    """
    return reached(wrongtype(i))


def h_struct(k: int, i: int) -> bool:
    """
    pre: -6 <= i <= 6 and k == 0
    post: _
    """
    return verdict(struct_set(k, i))


def h_struct_reach(k: int, i: int) -> bool:
    """
    pre: -6 <= i <= 6 and k == 0
    post: _
    """
    return reached(struct_set(k, i))


def h_disable(e1: bool, e2: bool, e3: bool, g1: bool, g2: bool, g3: bool, v: int) -> bool:
    """
    post: _
    """
    return verdict(disable(e1, e2, e3, g1, g2, g3, v))


def h_other_thread(v: int, w: int) -> bool:
    """
    pre: (v < -128 or v > 127) and (w < 0 or w > 65535)
    post: _
    """
    return verdict(other_thread(v, w))


def h_other_thread_reach(v: int, w: int) -> bool:
    """
    pre: (v < -128 or v > 127) and (w < 0 or w > 65535)
    post: _
    """
    return reached(other_thread(v, w))


def h_disable_reach(e1: bool, e2: bool, e3: bool, g1: bool, g2: bool, g3: bool, v: int) -> bool:
    """
    post: _
    """
    return reached(disable(e1, e2, e3, g1, g2, g3, v))
