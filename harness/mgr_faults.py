"""C14 / C07 (write side) / C03 (nested removal): real MessageManager.forward_message + send_failed_message +
remove_module + send_client_close, with recipients that are not writable and/or whose connection dies during a send.

shard: rec = per recipient [sk, wr, fail]   sk: 0 not subscribed to the type, 1 subscribed to msg_type, 2 subscribed to ALL
                                            wr: in the select round's writable list
                                            fail: 0 healthy; 1 dies at its next sendall; 2 dies at the one after (payload half)
       mclass = "gen" (symbolic msg_type outside SPECIAL) | a concrete special type id (8, 33, 40..45)
       origin = "mgr": the message in flight is one the manager itself originates (CLIENT_INFO about the sender module, through
                send_client_info -> send_message -> forward_message) instead of a client's frame; mclass is then MT_CLIENT_INFO.
                A write failure during it nests a second manager-originated message (CLIENT_CLOSED) inside the first.
symbolic: msg_type (gen), dest_mod 0..200, src ids, module ids 0..199, per recipient: is_logger, subscribed to FAILED_MESSAGE,
          subscribed to CLIENT_CLOSED (the latter two only when not subscribed to ALL)
"""
from engine import mgrworld as W
from harness.common import sh, set_shard, verdict, reached  # noqa: F401
from pyrtma.validators import disable_message_validation

M = W.M
cd = W.cd
ALL = W.ALL
FM = cd.MT_FAILED_MESSAGE
CC = cd.MT_CLIENT_CLOSED
GUARD = (cd.MT_FAILED_MESSAGE, cd.MT_RTMA_LOG, cd.MT_RTMA_LOG_CRITICAL, cd.MT_RTMA_LOG_ERROR, cd.MT_RTMA_LOG_WARNING,
         cd.MT_RTMA_LOG_INFO, cd.MT_RTMA_LOG_DEBUG)
SPECIAL = GUARD + (CC,)


def run(msg_type, dest_mod, src_mod, ids, lgs, fsubs, csubs, drops=(0, 0, 0)):
    """returns (exception or None, mm, mods, payload, flags)"""
    rec = sh("rec")
    n = len(rec)
    mm, mods = W.build(n + 1)
    sender = mods[n]
    sender.mod_id = 77
    sender.connected = True
    for k in range(n):
        m = mods[k]
        sk, wr, fail = rec[k]
        m.mod_id = ids[k]
        m.connected = True
        m.name = "m%d" % k
        m.drops = drops[k]          # arbitrary history: earlier drops / frames already sent on this connection
        m.msg_count = drops[k] + 3
        if lgs[k]:
            W.make_logger(mm, m)
        if sk == 1:
            W.subscribe(mm, m, msg_type)
        elif sk == 2:
            W.subscribe(mm, m, ALL)
        if sk != 2:
            if fsubs[k]:
                W.subscribe(mm, m, FM)
            if csubs[k]:
                W.subscribe(mm, m, CC)
        if wr:
            mm.wlist.append(m.conn)
        if fail:
            m.conn.fail_after = fail - 1
    h = W.new_header(mm, msg_type=msg_type, dest_mod_id=dest_mod, dest_host_id=0, src_mod_id=src_mod, src_host_id=0,
                     num_data_bytes=3, msg_count=9, remaining_bytes=0, is_dynamic=0, reserved=0)
    payload = b"abc"
    exc = None
    with disable_message_validation():
        try:
            if sh("origin") == "mgr":
                payload = ("mgr", sender.uid)
                mm.send_client_info(sender)
            else:
                mm.forward_message(sender, h, payload)
        except Exception as e:
            import traceback
            exc = e
            e.args = (str(e) + " @ " + " <- ".join("%s:%d" % (f.name, f.lineno) for f in traceback.extract_tb(e.__traceback__)[-4:]),)
    return exc, mm, mods, payload


def is_the_message(hd, p, payload):
    if isinstance(payload, tuple):      # manager-originated CLIENT_INFO about module uid payload[1]
        return hd["msg_type"] == cd.MT_CLIENT_INFO and hd["src_mod_id"] == 0 and p[2] is not None and W.pfield(p, "uid") == payload[1]
    return p[1] is payload


def subscribed(k, msg_type, fsubs, csubs):
    """is recipient k subscribed to msg_type (directly, via ALL, or because msg_type is one of its extra subscriptions)"""
    sk = sh("rec")[k][0]
    if sk != 0:
        return True
    return (fsubs[k] and msg_type == FM) or (csubs[k] and msg_type == CC)


def oracle(which, msg_type, dest_mod, src_mod, ids, lgs, fsubs, csubs, drops=(0, 0, 0)):
    rec = sh("rec")
    n = len(rec)
    exc, mm, mods, payload = run(msg_type, dest_mod, src_mod, ids, lgs, fsubs, csubs, drops)
    if exc is not None:
        return False, "exception escaped forward_message: %s: %s" % (type(exc).__name__, exc)
    sub = [subscribed(k, msg_type, fsubs, csubs) for k in range(n)]
    passes = [dest_mod == 0 or ids[k] == dest_mod or lgs[k] for k in range(n)]
    able = [bool(rec[k][1]) or lgs[k] for k in range(n)]
    healthy = [rec[k][2] == 0 for k in range(n)]
    fm_sub = [rec[k][0] == 2 or fsubs[k] for k in range(n)]
    cc_sub = [rec[k][0] == 2 or csubs[k] for k in range(n)]
    # a failing module that also listens to notices may be killed by a notice before the original reaches it
    may_die_early = [(not healthy[k]) and (fm_sub[k] or cc_sub[k]) for k in range(n)]
    frames = []
    for k in range(n):
        try:
            frames.append(mods[k].conn.frames() if healthy[k] else [])
        except AssertionError as e:
            return False, "recipient %d byte stream is not whole frames: %s" % (k, e)
    alive = [W._contains(list(mm.modules.values()), mods[k]) for k in range(n)]
    guard = msg_type in GUARD

    # --- the message itself (C14: "the other subscribers still receive the message")
    for k in range(n):
        got = len([1 for hd, p in frames[k] if is_the_message(hd, p, payload)])
        want = sub[k] and passes[k] and able[k] and healthy[k]
        if healthy[k] and got != (1 if want else 0):
            return False, "recipient %d: %d copies of the message, expected %d" % (k, got, 1 if want else 0)
        if healthy[k] and not alive[k]:
            return False, "healthy recipient %d was removed" % k
    if which == "c14":
        for k in range(n):
            # strictly undeliverable: eligible, and either not ready (and not a logger) or its send failed for sure
            undeliv = sub[k] and passes[k] and ((not able[k]) or (not healthy[k] and not may_die_early[k]))
            withheld_same_id = [j for j in range(n) if sub[j] and not (healthy[j] and able[j] and passes[j])]
            for j in range(n):
                if j == k or not (fm_sub[j] and able[j] and healthy[j]):
                    continue
                notices = [p for hd, p in frames[j] if hd["msg_type"] == FM and hd["src_mod_id"] == 0 and p[2] is not None
                           and W.pfield(p, "dest_mod_id") == ids[k]
                           and W.pfield(p, "msg_header", "msg_type") == msg_type]
                for p in notices:
                    if not (W.pfield(p, "msg_header", "src_mod_id") == src_mod and W.pfield(p, "msg_header", "dest_mod_id") == dest_mod):
                        return False, "FAILED_MESSAGE does not carry the original header"
                lo = len([1 for x in range(n) if x != j and ids[x] == ids[k] and sub[x] and passes[x]
                          and ((not able[x]) or (not healthy[x] and not may_die_early[x]))]) if undeliv else 0
                hi = len([1 for x in withheld_same_id if x != j and ids[x] == ids[k]])
                if guard:
                    if len(notices) != 0:
                        return False, "a notice was produced for an undeliverable FAILED_MESSAGE / RTMA_LOG message"
                elif not (lo <= len(notices) <= hi):
                    return False, "subscriber %d: %d FAILED_MESSAGE notices about module id of %d, expected between %d and %d" % (j, len(notices), k, lo, hi)
    if which == "c07":
        for k in range(n):
            m = mods[k]
            must_be_gone = (not healthy[k]) and sub[k] and passes[k] and able[k] and not may_die_early[k]
            if must_be_gone and alive[k]:
                return False, "module %d failed during a send but is still registered" % k
            if not alive[k]:
                if healthy[k]:
                    return False, "healthy module removed"
                if not m.conn.closed:
                    return False, "removed module's connection not closed"
                if m in mm.logger_modules:
                    return False, "removed module still a logger"
                for t, s in mm.subscriptions.items():
                    if m in s:
                        return False, "removed module still in a subscription set"
            for j in range(n):
                if j == k or not (cc_sub[j] and able[j] and healthy[j]):
                    continue
                closed = [p for hd, p in frames[j] if hd["msg_type"] == CC and hd["src_mod_id"] == 0 and p[2] is not None and W.pfield(p, "uid") == k + 1]
                want = 0 if alive[k] else 1
                if len(closed) != want:
                    return False, "monitor %d saw %d CLIENT_CLOSED for module %d, expected %d" % (j, len(closed), k, want)
                for p in closed:
                    if not (W.pfield(p, "mod_id") == ids[k] and W.pfield(p, "is_logger") == (1 if lgs[k] else 0)
                            and W.pfield(p, "is_unique") == 1 and W.pfield(p, "name") in (b"m%d" % k, ("m%d" % k).encode())):
                        return False, "CLIENT_CLOSED does not describe the departed module"
        for j in range(n):
            if not (healthy[j] and able[j]):
                continue
            for hd, p in frames[j]:
                if hd["msg_type"] == CC and hd["src_mod_id"] == 0 and p[2] is not None:
                    u = W.pfield(p, "uid")
                    if not (1 <= u <= n and not alive[u - 1]):
                        return False, "monitor %d got a CLIENT_CLOSED about a module that did not leave" % j
        if not W.inv_ok(mm):
            return False, "Inv broken after removal"
    return True, ""


def _pre(msg_type, dest_mod, src_mod, id0, id1, id2, lg0, lg1, lg2, f0, f1, f2, c0, c1, c2):
    mc = sh("mclass", "gen")
    if mc == "gen":
        if msg_type in SPECIAL:
            return False
    elif msg_type != int(mc):
        return False
    if sh("origin") == "mgr" and (dest_mod != 0 or src_mod != 0):
        return False    # what the manager originates is addressed to everybody and comes from module 0
    rec = sh("rec")
    n = len(rec)
    # unused parameters pinned (no spurious paths)
    lg, f, c, ids = [lg0, lg1, lg2], [f0, f1, f2], [c0, c1, c2], [id0, id1, id2]
    for k in range(3):
        if k >= n:
            if lg[k] or f[k] or c[k] or ids[k] != 0:
                return False
        elif rec[k][0] == 2 and (f[k] or c[k]):
            return False
    return 0 <= id0 <= 199 and 0 <= id1 <= 199 and 0 <= id2 <= 199


def _go(which, msg_type, dest_mod, src_mod, id0, id1, id2, lg0, lg1, lg2, f0, f1, f2, c0, c1, c2, dr0=0, dr1=0):
    n = len(sh("rec"))
    return oracle(which, msg_type, dest_mod, src_mod, [id0, id1, id2][:n], [lg0, lg1, lg2][:n], [f0, f1, f2][:n], [c0, c1, c2][:n], [dr0, dr1, dr0])


def c14(msg_type: int, dest_mod: int, src_mod: int, id0: int, id1: int, id2: int, lg0: bool, lg1: bool, lg2: bool,
        f0: bool, f1: bool, f2: bool, c0: bool, c1: bool, c2: bool, dr0: int, dr1: int) -> bool:
    """
    pre: -2**31 <= msg_type < 2**31 and msg_type != 2147483647
    pre: 0 <= dest_mod <= 200 and -2**15 <= src_mod < 2**15 and 0 <= dr0 < 2**20 and 0 <= dr1 < 2**20
    pre: _pre(msg_type, dest_mod, src_mod, id0, id1, id2, lg0, lg1, lg2, f0, f1, f2, c0, c1, c2)
    post: _
    """
    return verdict(_go("c14", msg_type, dest_mod, src_mod, id0, id1, id2, lg0, lg1, lg2, f0, f1, f2, c0, c1, c2, dr0, dr1))


def c14_reach(msg_type: int, dest_mod: int, src_mod: int, id0: int, id1: int, id2: int, lg0: bool, lg1: bool, lg2: bool,
              f0: bool, f1: bool, f2: bool, c0: bool, c1: bool, c2: bool, dr0: int, dr1: int) -> bool:
    """
    pre: -2**31 <= msg_type < 2**31 and msg_type != 2147483647
    pre: 0 <= dest_mod <= 200 and -2**15 <= src_mod < 2**15 and 0 <= dr0 < 2**20 and 0 <= dr1 < 2**20
    pre: _pre(msg_type, dest_mod, src_mod, id0, id1, id2, lg0, lg1, lg2, f0, f1, f2, c0, c1, c2)
    post: _
    """
    return reached(_go("c14", msg_type, dest_mod, src_mod, id0, id1, id2, lg0, lg1, lg2, f0, f1, f2, c0, c1, c2, dr0, dr1))


def c07(msg_type: int, dest_mod: int, src_mod: int, id0: int, id1: int, id2: int, lg0: bool, lg1: bool, lg2: bool,
        f0: bool, f1: bool, f2: bool, c0: bool, c1: bool, c2: bool, dr0: int, dr1: int) -> bool:
    """
    pre: -2**31 <= msg_type < 2**31 and msg_type != 2147483647
    pre: 0 <= dest_mod <= 200 and -2**15 <= src_mod < 2**15 and 0 <= dr0 < 2**20 and 0 <= dr1 < 2**20
    pre: _pre(msg_type, dest_mod, src_mod, id0, id1, id2, lg0, lg1, lg2, f0, f1, f2, c0, c1, c2)
    post: _
    """
    return verdict(_go("c07", msg_type, dest_mod, src_mod, id0, id1, id2, lg0, lg1, lg2, f0, f1, f2, c0, c1, c2, dr0, dr1))


def c07_reach(msg_type: int, dest_mod: int, src_mod: int, id0: int, id1: int, id2: int, lg0: bool, lg1: bool, lg2: bool,
              f0: bool, f1: bool, f2: bool, c0: bool, c1: bool, c2: bool, dr0: int, dr1: int) -> bool:
    """
    pre: -2**31 <= msg_type < 2**31 and msg_type != 2147483647
    pre: 0 <= dest_mod <= 200 and -2**15 <= src_mod < 2**15 and 0 <= dr0 < 2**20 and 0 <= dr1 < 2**20
    pre: _pre(msg_type, dest_mod, src_mod, id0, id1, id2, lg0, lg1, lg2, f0, f1, f2, c0, c1, c2)
    post: _
    """
    return reached(_go("c07", msg_type, dest_mod, src_mod, id0, id1, id2, lg0, lg1, lg2, f0, f1, f2, c0, c1, c2, dr0, dr1))
