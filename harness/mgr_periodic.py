"""C18 (statistics exact) and C03 (periodic senders never raise): real send_timing_message / send_traffic /
send_active_clients / counter increments of forward_message, statistics read back from what a subscriber receives.

shard: what = "timing" | "traffic" | "active" | "count"; K = number of distinct types in the interval (traffic/timing);
       N = number of table entries (active)
symbolic: timing: up to 3 (type, count) pairs over all of int32 x 1..65535, module ids/pids, a probe index
          traffic: the first two types and counts symbolic (remaining K-2 entries concrete, pairwise distinct), seqno
          count: msg_type, sending flag
"""
from engine import mgrworld as W
from engine.shadow import NoTracing
from harness.common import sh, set_shard, verdict, reached  # noqa: F401
from pyrtma.validators import disable_message_validation

M = W.M
cd = W.cd
ALL = W.ALL
NT = cd.MAX_MESSAGE_TYPES
CH = cd.MESSAGE_TRAFFIC_SIZE


def sparse_get(arr, q, default=0):
    """value at index q of a recorded int array (shadow sparse snapshot, shadow dense list, or real list)"""
    if isinstance(arr, tuple) and arr and arr[0] == "sparse":
        r = default
        for j, v in arr[1]:
            if j == q:
                r = v
        return r
    return arr[q]


def listener(mm, mods):
    m = mods[0]
    m.connected = True
    m.mod_id = 150
    W.subscribe(mm, m, ALL)
    mm.wlist = [m.conn]
    return m


def timing(t0, c0, t1, c1, t2, c2, id1, pid1, q):
    K = sh("K", 1)
    mm, mods = W.build(2)
    L = listener(mm, mods)
    o = mods[1]
    o.connected = True
    o.mod_id = id1
    o.pid = pid1
    pairs = [(t0, c0), (t1, c1), (t2, c2)][:K]
    for t, c in pairs:
        mm.message_counts[t] += c
    with disable_message_validation():
        try:
            mm.send_timing_message()
        except Exception as e:
            return False, "send_timing_message raised %s: %s" % (type(e).__name__, e)
    fr = [p for hd, p in L.conn.frames() if hd["msg_type"] == cd.MT_TIMING_MESSAGE]
    if len(fr) != 1:
        return False, "expected one TIMING_MESSAGE, got %d" % len(fr)
    tim = W.pfield(fr[0], "timing")
    want = 0
    for t, c in pairs:
        if t == q:
            want = c
    if sparse_get(tim, q) != want:
        return False, "timing[probe] is not the number of messages of that type"
    pids = W.pfield(fr[0], "ModulePID")
    if sparse_get(pids, id1) != pid1:
        return False, "ModulePID of a connected module is wrong"
    if len(mm.message_counts) != 0:
        return False, "counters not cleared"
    return True, ""


def traffic(t0, c0, t1, c1, seq):
    K = sh("K", 1)
    mm, mods = W.build(1)
    L = listener(mm, mods)
    mm.traffic_seqno = seq
    inputs = []
    for j in range(K):
        if j == 0:
            inputs.append((t0, c0))
        elif j == 1:
            inputs.append((t1, c1))
        else:
            inputs.append((1000 + j, j))
    for t, c in inputs:
        mm.traffic_counter[t] += c
    with disable_message_validation():
        try:
            mm.send_traffic()
        except Exception as e:
            return False, "send_traffic raised %s: %s" % (type(e).__name__, e)
    fr = [p for hd, p in L.conn.frames() if hd["msg_type"] == cd.MT_MESSAGE_TRAFFIC]
    entries = []
    for n, p in enumerate(fr):
        if W.pfield(p, "seqno") != seq:
            return False, "seqno differs within the interval"
        if W.pfield(p, "sub_seqno") != n + 1:
            return False, "sub_seqno does not run 1..n"
        mt, mc = W.pfield(p, "msg_type"), W.pfield(p, "msg_count")
        for i in range(CH):
            if mt[i] != -1:
                entries.append((mt[i], mc[i]))
    for j, (t, c) in enumerate(inputs):
        hits = [e for e in entries if e[0] == t]
        if len(hits) != 1:
            return False, "type #%d listed %d times in the interval's sub-messages (K=%d)" % (j, len(hits), K)
        if hits[0][1] != c:
            return False, "type #%d listed with a wrong count" % j
    if len(entries) != K:
        return False, "%d entries listed for %d types seen" % (len(entries), K)
    if len(mm.traffic_counter) != 0 or mm.traffic_seqno != seq + 1:
        return False, "interval not closed"
    return True, ""


def active(id1, pid1):
    N = sh("N", 1)
    mm, mods = W.build(1)
    L = listener(mm, mods)
    with NoTracing():
        H = mm.header_cls
        for i in range(N):
            c = W.FakeConn(100 + i)
            m = M.Module(uid=100 + i, conn=c, address=("h", 1), header_cls=H, connected=True, mod_id=1 + (i % 99))
            mm.modules[c] = m
        sent = []
    if N >= 1:
        first = list(mm.modules.values())[2]
        first.mod_id = id1
        first.pid = pid1
    mm.send_client_info = lambda module: None   # covered by the step obligations; here only the table walk matters
    with disable_message_validation():
        try:
            mm.send_active_clients()
        except Exception as e:
            return False, "send_active_clients raised %s: %s (table of %d entries)" % (type(e).__name__, e, N + 2)
    fr = [p for hd, p in L.conn.frames() if hd["msg_type"] == cd.MT_ACTIVE_CLIENTS]
    if len(fr) != 1:
        return False, "expected one ACTIVE_CLIENTS"
    if N >= 1 and not (sparse_get(W.pfield(fr[0], "client_mod_id"), 2) == id1 and sparse_get(W.pfield(fr[0], "client_pid"), 2) == pid1):
        return False, "table entry differs"
    return True, ""


def count(msg_type, sending):
    mm, mods = W.build(1)
    L = listener(mm, mods)
    sender = mm.mm_module
    h = W.new_header(mm, msg_type=msg_type, dest_mod_id=0, dest_host_id=0, src_mod_id=0, num_data_bytes=0)
    with disable_message_validation():
        if sending:
            with mm.sending_traffic_ctx():
                mm.forward_message(sender, h, b"")
        else:
            mm.forward_message(sender, h, b"")
    want = 0 if sending else 1
    if mm.message_counts[msg_type] != want or mm.traffic_counter[msg_type] != want:
        return False, "counter increment wrong"
    if len(mm.message_counts) != want or len(mm.traffic_counter) != want:
        return False, "another type was counted"
    if mm.sending_traffic.get():
        return False, "sending_traffic flag left set"
    return True, ""


def _pre_timing(t0, c0, t1, c1, t2, c2):
    K = sh("K", 1)
    ts, cs = [t0, t1, t2], [c0, c1, c2]
    for j in range(3):
        if j >= K:
            if ts[j] != 0 or cs[j] != 0:
                return False
        else:
            if not (-2**31 <= ts[j] < 2**31 and 1 <= cs[j] <= 65535):
                return False
            for i in range(j):
                if ts[i] == ts[j]:
                    return False
    return True


def h_timing(t0: int, c0: int, t1: int, c1: int, t2: int, c2: int, id1: int, pid1: int, q: int) -> bool:
    """
    pre: _pre_timing(t0, c0, t1, c1, t2, c2)
    pre: 1 <= id1 <= 199 and id1 != 150 and -2**31 <= pid1 < 2**31 and 0 <= q < 10000
    post: _
    """
    return verdict(timing(t0, c0, t1, c1, t2, c2, id1, pid1, q))


def h_timing_reach(t0: int, c0: int, t1: int, c1: int, t2: int, c2: int, id1: int, pid1: int, q: int) -> bool:
    """
    pre: _pre_timing(t0, c0, t1, c1, t2, c2)
    pre: 1 <= id1 <= 199 and id1 != 150 and -2**31 <= pid1 < 2**31 and 0 <= q < 10000
    post: _
    """
    return reached(timing(t0, c0, t1, c1, t2, c2, id1, pid1, q))


def h_traffic(t0: int, c0: int, t1: int, c1: int, seq: int) -> bool:
    """
    pre: -2**31 <= t0 < 2**31 and -2**31 <= t1 < 2**31 and t0 != t1 and t0 != -1 and t1 != -1
    pre: not (1000 <= t0 < 1400) and not (1000 <= t1 < 1400)
    pre: 1 <= c0 <= 65535 and 1 <= c1 <= 65535 and 1 <= seq < 2**31
    post: _
    """
    return verdict(traffic(t0, c0, t1, c1, seq))


def h_traffic_reach(t0: int, c0: int, t1: int, c1: int, seq: int) -> bool:
    """
    pre: -2**31 <= t0 < 2**31 and -2**31 <= t1 < 2**31 and t0 != t1 and t0 != -1 and t1 != -1
    pre: not (1000 <= t0 < 1400) and not (1000 <= t1 < 1400)
    pre: 1 <= c0 <= 65535 and 1 <= c1 <= 65535 and 1 <= seq < 2**31
    post: _
    """
    return reached(traffic(t0, c0, t1, c1, seq))


def h_active(id1: int, pid1: int) -> bool:
    """
    pre: 1 <= id1 <= 199 and -2**31 <= pid1 < 2**31
    post: _
    """
    return verdict(active(id1, pid1))


def h_active_reach(id1: int, pid1: int) -> bool:
    """
    pre: 1 <= id1 <= 199 and -2**31 <= pid1 < 2**31
    post: _
    """
    return reached(active(id1, pid1))


def h_count(msg_type: int, sending: bool) -> bool:
    """
    pre: -2**31 <= msg_type < 2**31
    post: _
    """
    return verdict(count(msg_type, sending))


def h_count_reach(msg_type: int, sending: bool) -> bool:
    """
    pre: -2**31 <= msg_type < 2**31
    post: _
    """
    return reached(count(msg_type, sending))


# ---- interval boundaries in the real run() loop (C18): one idle round under a controlled clock ----
class _IdleSelect:
    def __init__(self, mm, writable):
        self.mm, self.writable, self.reads = mm, writable, 0

    def select(self, r, w, x, t=None):
        r, w = list(r), list(w)
        if r:
            self.reads += 1
            if self.reads > 1:
                self.mm._keep_running = False
            return ([], [], [])
        return ([], [c for c in w if W._contains(self.writable, c)], [])


class _Clock:
    def __init__(self, now):
        self.now = now

    def perf_counter(self):
        return self.now

    def time(self):
        return self.now


def boundary(t0, c0, t1, c1):
    """one round of the real run() in which no connection is ready; the clock says which reporting intervals have ended.
    shard: due = [timing due, traffic due]; listen = "none" | "traffic" | "timing" | "all" (what the monitor is subscribed to);
           K = number of (type, count) pairs accumulated in both counters (0..2)
    An interval that run() closes (its start time moves to now) must leave no count behind for the next one, whether or not
    anybody listened; an interval it leaves open keeps its start time and its counts; what a listener is sent is the counters."""
    due_timing, due_traffic = sh("due", [0, 1])
    listen = sh("listen", "none")
    K = sh("K", 1)
    mm, mods = W.build(1)
    L = mods[0]
    L.connected = True
    L.mod_id = 150
    if listen == "traffic":
        W.subscribe(mm, L, cd.MT_MESSAGE_TRAFFIC)
    elif listen == "timing":
        W.subscribe(mm, L, cd.MT_TIMING_MESSAGE)
    elif listen == "all":
        W.subscribe(mm, L, ALL)
    mm.wlist = [L.conn]
    pairs = [(t0, c0), (t1, c1)][:K]
    for t, c in pairs:
        mm.traffic_counter[t] += c
        mm.message_counts[t] += c
    now = 5000.0
    mm.t_last_message_count = now - (10.0 if due_timing else 0.1)
    mm.traffic_start = now - (10.0 if due_traffic else 0.1)
    mm.last_client_info = now          # ACTIVE_CLIENTS stays quiet (it is C03's subject)
    pre_traffic_start, pre_timing_start = mm.traffic_start, mm.t_last_message_count
    old = (M.select, M.time)
    M.select, M.time = _IdleSelect(mm, [L.conn]), _Clock(now)
    try:
        try:
            mm.run()
        except Exception as e:
            return False, "run() raised %s: %s" % (type(e).__name__, e)
    finally:
        M.select, M.time = old
    # --- traffic interval
    if mm.traffic_start == pre_traffic_start:
        if due_traffic:
            return False, "the traffic interval ended but was not closed"
        if len(mm.traffic_counter) != K:
            return False, "counts of an open traffic interval were dropped"
    else:
        if not due_traffic:
            return False, "a traffic interval was closed before its time"
        if len(mm.traffic_counter) != 0:
            return False, "a new traffic interval was started with the counts of the previous one still in the counter (listener: %s)" % listen
    # --- timing interval
    if mm.t_last_message_count == pre_timing_start:
        if due_timing:
            return False, "the timing interval ended but was not closed"
        if len(mm.message_counts) != K:
            return False, "counts of an open timing interval were dropped"
    else:
        if not due_timing:
            return False, "a timing interval was closed before its time"
        if len(mm.message_counts) != 0:
            return False, "a new timing interval was started with the counts of the previous one still in the counter (listener: %s)" % listen
    # --- what the listener was sent
    frames = L.conn.frames()
    tr = [p for hd, p in frames if hd["msg_type"] == cd.MT_MESSAGE_TRAFFIC]
    ti = [p for hd, p in frames if hd["msg_type"] == cd.MT_TIMING_MESSAGE]
    want_tr = due_traffic and listen in ("traffic", "all") and K > 0
    want_ti = due_timing and listen in ("timing", "all")
    if not want_tr and tr:
        return False, "MESSAGE_TRAFFIC sent although %s" % ("no interval ended" if not due_traffic else "nothing was counted or nobody listens")
    if want_tr:
        entries = []
        for p in tr:
            mt, mc = W.pfield(p, "msg_type"), W.pfield(p, "msg_count")
            for i in range(CH):
                if mt[i] != -1:
                    entries.append((mt[i], mc[i]))
        if len(entries) != K:
            return False, "the listener was sent %d traffic entries for %d types counted in the interval" % (len(entries), K)
        for t, c in pairs:
            if len([e for e in entries if e[0] == t and e[1] == c]) != 1:
                return False, "a counted type is missing from (or wrong in) the interval's report"
    if bool(ti) != bool(want_ti):
        return False, "TIMING_MESSAGE %s" % ("missing at the end of its interval" if want_ti else "sent out of turn")
    if want_ti and len(ti) != 1:
        return False, "more than one TIMING_MESSAGE for one interval"
    return True, ""


def _pre_boundary(t0, c0, t1, c1):
    return t0 != t1 and t0 != -1 and t1 != -1


def h_boundary(t0: int, c0: int, t1: int, c1: int) -> bool:
    """
    pre: -2**31 <= t0 < 2**31 and -2**31 <= t1 < 2**31 and 1 <= c0 <= 65535 and 1 <= c1 <= 65535
    pre: _pre_boundary(t0, c0, t1, c1)
    post: _
    """
    return verdict(boundary(t0, c0, t1, c1))


def h_boundary_reach(t0: int, c0: int, t1: int, c1: int) -> bool:
    """
    pre: -2**31 <= t0 < 2**31 and -2**31 <= t1 < 2**31 and 1 <= c0 <= 65535 and 1 <= c1 <= 65535
    pre: _pre_boundary(t0, c0, t1, c1)
    post: _
    """
    return reached(boundary(t0, c0, t1, c1))
