#!/bin/bash
# tools_seed_regress.sh [name-pattern]: for every archived seeded change (seeded/<name>/patch.diff) make a scratch worktree of
# /repo's HEAD under /tmp, apply the patch there, run the quick check(s) named in meta.json "regress_checks" (default: the
# property's own) against it (VERIF_REPO, evidence/replay written under the scratch dir), report whether a VIOLATION was
# printed, and remove the worktree.  Development tool: nothing registered in MANIFEST.json uses it.
HERE="$(cd "$(dirname "$0")" && pwd)"
PAT=${1:-.}
OUT=${SEED_REGRESS_OUT:-/tmp/seed_regress}
mkdir -p "$OUT"
for d in "$HERE"/seeded/*/; do
  name=$(basename "$d")
  echo "$name" | grep -qE "$PAT" || continue
  prop=$(python3 -c "import json,sys; print(json.load(open('$d/meta.json'))['property'])")
  checks=$(python3 -c "import json,sys; m=json.load(open('$d/meta.json')); print(' '.join(m.get('regress_checks', [m['property']])))")
  wt=/tmp/seedwt_$name
  git -C /repo worktree remove --force "$wt" >/dev/null 2>&1
  git -C /repo worktree add -q --detach "$wt" HEAD || { echo "$name worktree-failed"; continue; }
  if ! git -C "$wt" apply "$d/patch.diff" 2>/dev/null; then
    echo "$name patch-does-not-apply"; git -C /repo worktree remove --force "$wt"; continue
  fi
  res=""
  for c in $checks; do
    s=$(date +%s)
    ( cd "$HERE" && VERIF_EVIDENCE_DIR="$wt/.ev" VERIF_REPLAY_DIR="$wt/.rp" VERIF_REPO="$wt" timeout 3000 bin/check $c quick > "$OUT/$name.$c.log" 2>&1 ); rc=$?
    v=$(grep -c '^VIOLATION' "$OUT/$name.$c.log")
    res="$res $c:exit=$rc,violations=$v,$(( $(date +%s) - s ))s"
  done
  echo "$name property=$prop$res"
  git -C /repo worktree remove --force "$wt"
done
